//! Spec language: the program space. An `EnumSpec` is one enum definition exactly as a
//! user would write it; `render_enum` turns it into Rust source. Nothing in here knows
//! what strum does with the definition (that is `refsem.rs`).

use serde::{Deserialize, Serialize};

#[derive(Clone, Debug, PartialEq, Eq, Hash, Serialize, Deserialize)]
pub enum FieldTy {
    U8,
    I32,
    Bool,
    Str,     // String
    SStr,    // &'static str
    LStr,    // &'a str   (needs lifetime 'a on the enum)
    OptU8,
    Arr2,    // [u8; 2]
    T,       // the enum's type parameter T
    U,       // the enum's type parameter U
    Nd,      // super::Nd : no Default impl, only usable with default_with
    Raw(String, String), // (type text, Debug text of Default::default())
}

impl FieldTy {
    pub fn ty(&self) -> String {
        match self {
            FieldTy::U8 => "u8".into(),
            FieldTy::I32 => "i32".into(),
            FieldTy::Bool => "bool".into(),
            FieldTy::Str => "String".into(),
            FieldTy::SStr => "&'static str".into(),
            FieldTy::LStr => "&'a str".into(),
            FieldTy::OptU8 => "Option<u8>".into(),
            FieldTy::Arr2 => "[u8; 2]".into(),
            FieldTy::T => "T".into(),
            FieldTy::U => "U".into(),
            FieldTy::Nd => "vf_core::Nd".into(),
            FieldTy::Raw(t, _) => t.clone(),
        }
    }
    /// Debug text of `Default::default()` of the type (type parameters are instantiated with u8).
    pub fn default_dbg(&self) -> String {
        match self {
            FieldTy::U8 | FieldTy::I32 | FieldTy::T | FieldTy::U => "0".into(),
            FieldTy::Bool => "false".into(),
            FieldTy::Str | FieldTy::SStr | FieldTy::LStr => "\"\"".into(),
            FieldTy::OptU8 => "None".into(),
            FieldTy::Arr2 => "[0, 0]".into(),
            FieldTy::Nd => "<no default>".into(),
            FieldTy::Raw(_, d) => d.clone(),
        }
    }
    /// (expression text, Debug text) of the value the `default_with` helper for this type returns.
    pub fn dw_value(&self) -> (String, String) {
        match self {
            FieldTy::U8 | FieldTy::T | FieldTy::U => ("7".into(), "7".into()),
            FieldTy::I32 => ("-7".into(), "-7".into()),
            FieldTy::Bool => ("true".into(), "true".into()),
            FieldTy::Str => ("String::from(\"dw\")".into(), "\"dw\"".into()),
            FieldTy::SStr | FieldTy::LStr => ("\"dw\"".into(), "\"dw\"".into()),
            FieldTy::OptU8 => ("Some(7)".into(), "Some(7)".into()),
            FieldTy::Arr2 => ("[7, 8]".into(), "[7, 8]".into()),
            FieldTy::Nd => ("vf_core::Nd(7)".into(), "Nd(7)".into()),
            FieldTy::Raw(t, d) => (format!("<{} as Default>::default()", t), d.clone()),
        }
    }
}

#[derive(Clone, Debug, PartialEq, Eq, Hash, Serialize, Deserialize)]
pub struct NamedField {
    pub name: String,
    pub ty: FieldTy,
    /// `#[strum(default_with = "..")]` on the field; the helper fn is named `dw_<variant idx>_<field idx>`
    pub default_with: bool,
}

#[derive(Clone, Debug, PartialEq, Eq, Hash, Serialize, Deserialize)]
pub enum Kind {
    Unit,
    Tuple(Vec<FieldTy>),
    Named(Vec<NamedField>),
}

impl Kind {
    pub fn nfields(&self) -> usize {
        match self {
            Kind::Unit => 0,
            Kind::Tuple(f) => f.len(),
            Kind::Named(f) => f.len(),
        }
    }
    pub fn is_unit(&self) -> bool {
        matches!(self, Kind::Unit)
    }
}

#[derive(Clone, Copy, Debug, PartialEq, Eq, Hash, Serialize, Deserialize)]
pub enum Aci {
    Bare,
    True,
    False,
}

#[derive(Clone, Copy, Debug, PartialEq, Eq, Hash, Serialize, Deserialize)]
pub enum Layout {
    /// all strum items in one `#[strum(a, b, c)]`
    Single,
    /// one `#[strum(x)]` attribute per item
    Split,
    /// one list, items in reverse order
    Reversed,
}

#[derive(Clone, Debug, PartialEq, Eq, Hash, Serialize, Deserialize)]
pub enum PropLit {
    S(String),
    I(i64),
    B(bool),
}

#[derive(Clone, Debug, PartialEq, Eq, Hash, Serialize, Deserialize)]
pub enum DocForm {
    /// `///text`
    Comment,
    /// `#[doc = "text"]`
    Attr,
    /// `#[doc(text)]` — a doc attribute that is not documentation text (hidden, alias = ".."); never part of the documentation
    Marker,
}

#[derive(Clone, Debug, PartialEq, Eq, Hash, Serialize, Deserialize)]
pub struct VariantSpec {
    pub ident: String,
    pub kind: Kind,
    pub disc: Option<String>,
    pub serialize: Vec<String>,
    pub to_string: Option<String>,
    pub disabled: bool,
    pub default: bool,
    pub transparent: bool,
    /// variant-level `default_with = "dw_<idx>"` (tuple variants: the single helper builds field 0)
    pub default_with: bool,
    pub aci: Option<Aci>,
    pub message: Option<String>,
    pub detailed_message: Option<String>,
    pub docs: Vec<(String, DocForm)>,
    pub props: Vec<Vec<(String, PropLit)>>,
    pub layout: Layout,
    /// raw extra attributes placed on the variant, e.g. `#[strum_discriminants(strum(message = "m"))]`
    pub extra_attrs: Vec<String>,
}

impl VariantSpec {
    pub fn unit(ident: &str) -> Self {
        VariantSpec {
            ident: ident.to_string(),
            kind: Kind::Unit,
            disc: None,
            serialize: vec![],
            to_string: None,
            disabled: false,
            default: false,
            transparent: false,
            default_with: false,
            aci: None,
            message: None,
            detailed_message: None,
            docs: vec![],
            props: vec![],
            layout: Layout::Single,
            extra_attrs: vec![],
        }
    }

    /// serialize literals in the order in which they appear in the source (layout aware)
    pub fn serialize_src_order(&self) -> Vec<String> {
        let mut v = self.serialize.clone();
        if self.layout == Layout::Reversed {
            v.reverse();
        }
        v
    }

    /// props in source order (group order and in-group order follow the layout)
    pub fn props_src_order(&self) -> Vec<(String, PropLit)> {
        let mut groups = self.props.clone();
        if self.layout == Layout::Reversed {
            groups.reverse();
        }
        groups.into_iter().flatten().collect()
    }

    /// the `strum(..)` items of this variant in canonical order
    fn strum_items(&self, lf: LitForm, nf: IntForm) -> Vec<String> {
        let lit = |s: &str| lit_form(s, lf);
        let mut it = Vec::new();
        for s in &self.serialize {
            it.push(format!("serialize = {}", lit(s)));
        }
        if let Some(s) = &self.to_string {
            it.push(format!("to_string = {}", lit(s)));
        }
        if self.disabled {
            it.push("disabled".into());
        }
        if self.default {
            it.push("default".into());
        }
        if self.transparent {
            it.push("transparent".into());
        }
        if self.default_with {
            it.push("default_with = \"dw_v\"".into()); // patched with the variant index by render
        }
        match self.aci {
            Some(Aci::Bare) => it.push("ascii_case_insensitive".into()),
            Some(Aci::True) => it.push("ascii_case_insensitive = true".into()),
            Some(Aci::False) => it.push("ascii_case_insensitive = false".into()),
            None => {}
        }
        if let Some(m) = &self.message {
            it.push(format!("message = {}", lit(m)));
        }
        if let Some(m) = &self.detailed_message {
            it.push(format!("detailed_message = {}", lit(m)));
        }
        for g in &self.props {
            let inner: Vec<String> = g
                .iter()
                .map(|(k, v)| {
                    let key = if is_strict_keyword(k) { k.clone() } else { k.clone() };
                    match v {
                        PropLit::S(s) => format!("{} = {}", key, lit(s)),
                        PropLit::I(i) => format!("{} = {}", key, int_form(*i, nf)),
                        PropLit::B(b) => format!("{} = {}", key, b),
                    }
                })
                .collect();
            it.push(format!("props({})", inner.join(", ")));
        }
        it
    }
}

fn is_strict_keyword(_k: &str) -> bool {
    false
}

#[derive(Clone, Debug, PartialEq, Eq, Hash, Serialize, Deserialize)]
pub enum Generic {
    /// `T: bounds` ; instantiated with u8
    Type { name: String, bounds: String },
    /// `const N: usize` ; instantiated with 3
    Const { name: String },
    /// `'a` ; instantiated with 'static
    Lifetime { name: String },
}

#[derive(Clone, Debug, PartialEq, Eq, Hash, Serialize, Deserialize)]
pub struct EnumSpec {
    pub name: String,
    pub vis: String,
    pub generics: Vec<Generic>,
    pub where_clause: Option<String>,
    pub repr: Option<String>,
    pub serialize_all: Option<String>,
    pub aci: bool,
    pub prefix: Option<String>,
    pub use_phf: bool,
    pub parse_err: bool,
    pub const_into_str: bool,
    pub crate_path: Option<String>,
    /// raw extra attributes placed on the enum (e.g. strum_discriminants(..))
    pub extra_attrs: Vec<String>,
    pub variants: Vec<VariantSpec>,
    /// surface-syntax choices that do not change the meaning of the definition:
    /// "raw-literals", "escaped-literals", "hex-ints", "underscore-ints", "suffixed-ints",
    /// "trailing-commas", "cfg_attr", "block-docs", "docs-after-attrs", "docs-split"
    #[serde(default)]
    pub syntax: Vec<String>,
}

/// declaration order is deliberately not alphabetical (nor is the order of the re-cased names), so that a
/// derive that sorts, reverses or re-indexes the variant list is observable
pub const BASE_IDENTS: [&str; 8] = ["Kk", "BbCc", "DEf", "Aa", "I_j", "G2h", "Mm", "Ll"];

impl EnumSpec {
    pub fn base(n: usize) -> Self {
        EnumSpec {
            name: "E".into(),
            vis: "pub".into(),
            generics: vec![],
            where_clause: None,
            repr: None,
            serialize_all: None,
            aci: false,
            prefix: None,
            use_phf: false,
            parse_err: false,
            const_into_str: false,
            crate_path: None,
            extra_attrs: vec![],
            variants: (0..n).map(|i| VariantSpec::unit(BASE_IDENTS[i % 8])).collect(),
            syntax: vec![],
        }
    }

    pub fn has_lifetime(&self) -> bool {
        self.generics.iter().any(|g| matches!(g, Generic::Lifetime { .. }))
    }

    /// `<T: Default, const N: usize>` (declaration form)
    pub fn generics_decl(&self) -> String {
        if self.generics.is_empty() {
            return String::new();
        }
        let mut lts = vec![];
        let mut rest = vec![];
        for g in &self.generics {
            match g {
                Generic::Lifetime { name } => lts.push(format!("'{}", name)),
                Generic::Type { name, bounds } => {
                    if bounds.is_empty() {
                        rest.push(name.clone())
                    } else {
                        rest.push(format!("{}: {}", name, bounds))
                    }
                }
                Generic::Const { name } => rest.push(format!("const {}: usize", name)),
            }
        }
        lts.extend(rest);
        format!("<{}>", lts.join(", "))
    }

    /// `<u8, 3>` (instantiation used by the glue)
    pub fn generics_inst(&self) -> String {
        self.generics_inst_with("u8")
    }

    pub fn generics_inst_with(&self, tyarg: &str) -> String {
        if self.generics.is_empty() {
            return String::new();
        }
        let mut lts = vec![];
        let mut rest = vec![];
        for g in &self.generics {
            match g {
                Generic::Lifetime { .. } => lts.push("'static".to_string()),
                // a parameter named `P` is instantiated with a type that implements neither Default nor Display
                Generic::Type { name, .. } if name == "P" => rest.push("vf_core::Nd".to_string()),
                // a parameter named `S` is instantiated with a string slice
                Generic::Type { name, .. } if name == "S" => rest.push("&'static str".to_string()),
                Generic::Type { .. } => rest.push(tyarg.to_string()),
                Generic::Const { .. } => rest.push("3".to_string()),
            }
        }
        lts.extend(rest);
        format!("<{}>", lts.join(", "))
    }

    /// enum-level `strum(..)` items
    fn strum_items(&self) -> Vec<String> {
        let lf = self.lit_form();
        let lit = |s: &str| lit_form(s, lf);
        let mut it = Vec::new();
        if let Some(s) = &self.serialize_all {
            it.push(format!("serialize_all = {}", lit(s)));
        }
        if self.aci {
            it.push("ascii_case_insensitive".into());
        }
        if let Some(p) = &self.prefix {
            it.push(format!("prefix = {}", lit(p)));
        }
        if self.use_phf {
            it.push("use_phf".into());
        }
        if self.parse_err {
            it.push("parse_err_ty = vf_core::MyErr".into());
            it.push("parse_err_fn = vf_core::my_err".into());
        }
        if self.const_into_str {
            it.push("const_into_str".into());
        }
        if let Some(c) = &self.crate_path {
            it.push(format!("crate = {}", lit(c)));
        }
        it
    }
}

#[derive(Clone, Copy, PartialEq)]
pub enum LitForm {
    Plain,
    Raw,
    Escaped,
}

#[derive(Clone, Copy, PartialEq)]
pub enum IntForm {
    Dec,
    Hex,
    Underscore,
    Suffixed,
}

/// the same string written as a raw string literal / with every letter and non-ASCII char escaped
pub fn lit_form(s: &str, f: LitForm) -> String {
    match f {
        LitForm::Plain => lit(s),
        LitForm::Raw => {
            if s.contains('\r') {
                return lit(s); // a bare CR cannot appear in a raw string
            }
            let mut n = 1;
            while s.contains(&format!("\"{}", "#".repeat(n))) {
                n += 1;
            }
            format!("r{h}\"{s}\"{h}", h = "#".repeat(n), s = s)
        }
        LitForm::Escaped => {
            let mut o = String::from("\"");
            for c in s.chars() {
                match c {
                    '"' => o.push_str("\\\""),
                    '\\' => o.push_str("\\\\"),
                    '\n' => o.push_str("\\n"),
                    '\t' => o.push_str("\\t"),
                    '\r' => o.push_str("\\r"),
                    c if c.is_ascii_alphabetic() => o.push_str(&format!("\\x{:02x}", c as u32)),
                    c if !c.is_ascii() => o.push_str(&format!("\\u{{{:x}}}", c as u32)),
                    c => o.push(c),
                }
            }
            o.push('"');
            o
        }
    }
}

pub fn int_form(i: i64, f: IntForm) -> String {
    if i == i64::MIN {
        return i.to_string(); // only the decimal form of i64::MIN is a valid negated literal
    }
    let (neg, a) = (i < 0, i.unsigned_abs());
    let body = match f {
        IntForm::Dec => a.to_string(),
        IntForm::Hex => format!("0x{:X}", a),
        IntForm::Underscore => {
            let d = a.to_string();
            if d.len() >= 2 {
                format!("{}_{}", &d[..1], &d[1..])
            } else {
                format!("{}_", d)
            }
        }
        IntForm::Suffixed => format!("{}i64", a),
    };
    if neg {
        format!("-{}", body)
    } else {
        body
    }
}

impl EnumSpec {
    pub fn lit_form(&self) -> LitForm {
        if self.syntax.iter().any(|x| x == "raw-literals") {
            LitForm::Raw
        } else if self.syntax.iter().any(|x| x == "escaped-literals") {
            LitForm::Escaped
        } else {
            LitForm::Plain
        }
    }
    pub fn int_form(&self) -> IntForm {
        if self.syntax.iter().any(|x| x == "hex-ints") {
            IntForm::Hex
        } else if self.syntax.iter().any(|x| x == "underscore-ints") {
            IntForm::Underscore
        } else if self.syntax.iter().any(|x| x == "suffixed-ints") {
            IntForm::Suffixed
        } else {
            IntForm::Dec
        }
    }
    pub fn has_syntax(&self, k: &str) -> bool {
        self.syntax.iter().any(|x| x == k)
    }
}

/// Rust string literal for `s` (plain escaped form; always a valid literal)
pub fn lit(s: &str) -> String {
    let mut o = String::from("\"");
    for c in s.chars() {
        match c {
            '"' => o.push_str("\\\""),
            '\\' => o.push_str("\\\\"),
            '\n' => o.push_str("\\n"),
            '\t' => o.push_str("\\t"),
            '\r' => o.push_str("\\r"),
            c => o.push(c),
        }
    }
    o.push('"');
    o
}

fn layout_attrs(items: Vec<String>, layout: Layout, indent: &str, syntax: &[String]) -> String {
    if items.is_empty() {
        return String::new();
    }
    let tc = if syntax.iter().any(|x| x == "trailing-commas") { "," } else { "" };
    // the nested props(..) list ends with a comma too (the usual one-entry-per-line layout)
    let items: Vec<String> = if tc.is_empty() {
        items
    } else {
        items.into_iter().map(|i| if i.starts_with("props(") && i.ends_with(')') && i.len() > 7 { format!("{},)", &i[..i.len() - 1]) } else { i }).collect()
    };
    let wrap = |inner: String| -> String {
        if syntax.iter().any(|x| x == "cfg_attr") {
            format!("{}#[cfg_attr(all(), strum({}{}))]\n", indent, inner, tc)
        } else {
            format!("{}#[strum({}{})]\n", indent, inner, tc)
        }
    };
    match layout {
        Layout::Single => wrap(items.join(", ")),
        Layout::Split if syntax.iter().any(|x| x == "interleaved-foreign") => {
            // a non-strum attribute BETWEEN the strum attributes of one variant (they are not adjacent)
            items.iter().map(|i| wrap(i.clone())).collect::<Vec<_>>().join(&format!("{}#[allow(dead_code)]\n", indent))
        }
        Layout::Split => items.iter().map(|i| wrap(i.clone())).collect(),
        Layout::Reversed => {
            let mut r = items;
            r.reverse();
            wrap(r.join(", "))
        }
    }
}

/// Render the enum definition. `derives` are full paths (`strum::EnumString`, `Debug`, ..).
pub fn render_enum(spec: &EnumSpec, derives: &[&str]) -> String {
    if spec.syntax.iter().any(|x| x == "inherent-methods") {
        // declaration context: the enum has INHERENT methods named like the trait methods generated code is tempted to call with
        // method syntax (`self.into()`, `self.clone()`, `x.eq(y)`, `self.get(i)`): an inherent method wins over every trait method
        let mut inner = spec.clone();
        inner.syntax.retain(|x| x != "inherent-methods");
        let mut body = render_enum(&inner, derives);
        if spec.generics.is_empty() {
            body.push_str(&format!(
                "#[allow(dead_code, clippy::all)]\nimpl {n} {{\n    pub fn into(&self) -> vf_core::Hijack {{ vf_core::Hijack }}\n    pub fn try_into(&self) -> vf_core::Hijack {{ vf_core::Hijack }}\n    pub fn clone(&self) -> vf_core::Hijack {{ vf_core::Hijack }}\n    pub fn to_owned(&self) -> vf_core::Hijack {{ vf_core::Hijack }}\n    pub fn eq(&self, _o: &Self) -> vf_core::Hijack {{ vf_core::Hijack }}\n    pub fn ne(&self, _o: &Self) -> vf_core::Hijack {{ vf_core::Hijack }}\n    pub fn get(&self, _i: usize) -> vf_core::Hijack {{ vf_core::Hijack }}\n    pub fn as_ref(&self) -> vf_core::Hijack {{ vf_core::Hijack }}\n    pub fn borrow(&self) -> vf_core::Hijack {{ vf_core::Hijack }}\n    pub fn from(_x: vf_core::Hijack) -> vf_core::Hijack {{ vf_core::Hijack }}\n    pub fn default() -> vf_core::Hijack {{ vf_core::Hijack }}\n}}\n",
                n = spec.name
            ));
        }
        return body;
    }
    if spec.syntax.iter().any(|x| x == "variants-in-scope") {
        // declaration context: the enum's own variants are glob-imported where it is declared (`use E::*;`, a common idiom): an
        // identifier equal to a variant's name is then a PATH in patterns, not a fresh binding
        let mut inner = spec.clone();
        inner.syntax.retain(|x| x != "variants-in-scope");
        let mut body = render_enum(&inner, derives);
        body.push_str(&format!("#[allow(unused_imports)]\nuse {}::*;\n", spec.name));
        return body;
    }
    if spec.syntax.iter().any(|x| x == "iter-ext-trait") {
        // declaration context: a blanket extension trait gives EVERY iterator a by-`&mut self` method called `get`
        // (generated code that calls `self.get(i)` on its iterator instead of `Self::get(self, i)` picks this one up)
        let mut inner = spec.clone();
        inner.syntax.retain(|x| x != "iter-ext-trait");
        let body = render_enum(&inner, derives);
        return format!(
            "pub mod scoped_{n} {{\n    #![allow(unused_imports, dead_code)]\n    use super::*;\n    pub trait VfGetExt: ::core::iter::Iterator {{ fn get(&mut self, _i: usize) -> ::core::option::Option<Self::Item> {{ ::core::option::Option::None }} }}\n    impl<I: ::core::iter::Iterator> VfGetExt for I {{}}\n{body}}}\npub use scoped_{n}::*;\n",
            n = spec.name.to_lowercase(),
            body = body
        );
    }
    for (flag, items) in [
        // the prelude's Ok / Err / Some / None re-bound where the enum is declared (e.g. by glob-importing an enum with such variants)
        ("rebound-prelude-fns", "    fn Ok() {}\n    fn Err() {}\n    fn Some() {}\n    fn None() {}\n"),
        // a user type called Option next to the enum
        ("own-option-type", "    struct Option;\n"),
        // the declaring module forbids unsafe code (generated code may neither contain `unsafe` nor try to `allow(unsafe_code)`)
        ("forbid-unsafe", "    #![forbid(unsafe_code)]\n"),
    ] {
        if spec.syntax.iter().any(|x| x == flag) {
            let mut inner = spec.clone();
            inner.syntax.retain(|x| x != flag);
            let body = render_enum(&inner, derives);
            return format!(
                "pub mod scoped_{n}_{k} {{\n    #![allow(unused_imports, dead_code, non_snake_case)]\n{inner}    use super::*;\n{items}{body}}}\npub use scoped_{n}_{k}::*;\n",
                n = spec.name.to_lowercase(),
                k = flag.len(),
                inner = if items.trim_start().starts_with("#!") { items } else { "" },
                items = if items.trim_start().starts_with("#!") { "" } else { items },
                body = body
            );
        }
    }
    if spec.syntax.iter().any(|x| x == "via-macro") {
        // declaration context: the enum is produced by a macro_rules! macro; the error type and function of a custom parse
        // error are macro ARGUMENTS (their tokens carry the caller's hygiene, the derive's own identifiers do not)
        let mut inner = spec.clone();
        inner.syntax.retain(|x| x != "via-macro");
        let mut body = render_enum(&inner, derives);
        // exactly the plain pair (not MyErrG<..> / my_err_generic / my_err_g)
        let pair = "parse_err_ty = vf_core::MyErr, parse_err_fn = vf_core::my_err)";
        let has_err = body.contains(pair);
        if has_err {
            body = body.replace(pair, "parse_err_ty = $t, parse_err_fn = $f)");
        }
        let n = spec.name.to_lowercase();
        return if has_err {
            format!("macro_rules! vf_decl_{n} {{ ($t:ty, $f:path) => {{\n{body}}} }}\nvf_decl_{n}!(vf_core::MyErr, vf_core::my_err);\n", n = n, body = body)
        } else {
            format!("macro_rules! vf_decl_{n} {{ () => {{\n{body}}} }}\nvf_decl_{n}!();\n", n = n, body = body)
        };
    }
    if spec.syntax.iter().any(|x| x == "result-alias") {
        // declaration context: the enum lives in a module that has the customary `type Result<T> = ..` alias in scope
        // (generated code that says `Result<A, B>` instead of `::core::result::Result<A, B>` stops compiling there)
        let mut inner = spec.clone();
        inner.syntax.retain(|x| x != "result-alias");
        let body = render_enum(&inner, derives);
        return format!(
            "pub mod scoped_{n} {{\n    #![allow(unused_imports, dead_code)]\n    use super::*;\n    struct AliasErr;\n    type Result<T> = ::core::result::Result<T, AliasErr>;\n{body}}}\npub use scoped_{n}::*;\n",
            n = spec.name.to_lowercase(),
            body = body
        );
    }
    let mut o = String::new();
    o.push_str(&format!("#[derive({})]\n", derives.join(", ")));
    if let Some(r) = &spec.repr {
        // "u8;align(4)" renders two separate #[repr] attributes
        for part in r.split(';') {
            o.push_str(&format!("#[repr({})]\n", part.trim()));
        }
    }
    o.push_str(&layout_attrs(spec.strum_items(), Layout::Single, "", &spec.syntax));
    for a in &spec.extra_attrs {
        o.push_str(a);
        o.push('\n');
    }
    let vis = if spec.vis.is_empty() { String::new() } else { format!("{} ", spec.vis) };
    o.push_str(&format!(
        "{}enum {}{} {}{{\n",
        vis,
        spec.name,
        spec.generics_decl(),
        spec.where_clause.as_ref().map(|w| format!("where {} ", w)).unwrap_or_default()
    ));
    for (vi, v) in spec.variants.iter().enumerate() {
        // documentation lines; by default they come first, "docs-after-attrs" puts all of them after the variant's
        // other attributes and "docs-split" only the lines after the first (a doc comment is an attribute like any
        // other: its position among the attributes does not matter)
        let mut doc_lines: Vec<String> = Vec::new();
        for (d, form) in &v.docs {
            match form {
                // a one-line block comment carries exactly the same text as the line comment
                DocForm::Comment if spec.has_syntax("block-docs") && !d.is_empty() && !d.starts_with('*') && !d.starts_with('/') && !d.contains("*/") && !d.contains('\n') => doc_lines.push(format!("    /**{}*/\n", d)),
                DocForm::Comment => doc_lines.push(format!("    ///{}\n", d)),
                DocForm::Attr => doc_lines.push(format!("    #[doc = {}]\n", lit_form(d, spec.lit_form()))),
                DocForm::Marker => doc_lines.push(format!("    #[doc({})]\n", d)),
            }
        }
        let lead = if spec.has_syntax("docs-after-attrs") { 0 } else if spec.has_syntax("docs-split") { 1.min(doc_lines.len()) } else { doc_lines.len() };
        for l in &doc_lines[..lead] {
            o.push_str(l);
        }
        let items: Vec<String> =
            v.strum_items(spec.lit_form(), spec.int_form()).into_iter().map(|s| s.replace("dw_v", &format!("dw_{}", vi))).collect();
        o.push_str(&layout_attrs(items, v.layout, "    ", &spec.syntax));
        for a in &v.extra_attrs {
            o.push_str("    ");
            o.push_str(a);
            o.push('\n');
        }
        if lead < doc_lines.len() {
            // always at least one attribute that is not documentation between / before the moved lines
            o.push_str("    #[allow(dead_code)]\n");
            for l in &doc_lines[lead..] {
                o.push_str(l);
            }
        }
        o.push_str("    ");
        o.push_str(&v.ident);
        match &v.kind {
            Kind::Unit => {}
            Kind::Tuple(fs) => {
                let t: Vec<String> = fs.iter().map(|f| f.ty()).collect();
                o.push_str(&format!("({})", t.join(", ")));
            }
            Kind::Named(fs) => {
                let t: Vec<String> = fs
                    .iter()
                    .enumerate()
                    .map(|(fi, f)| {
                        if f.default_with {
                            format!("#[strum(default_with = \"dw_{}_{}\")] {}: {}", vi, fi, f.name, f.ty.ty())
                        } else {
                            format!("{}: {}", f.name, f.ty.ty())
                        }
                    })
                    .collect();
                o.push_str(&format!(" {{ {} }}", t.join(", ")));
            }
        }
        if let Some(d) = &v.disc {
            o.push_str(&format!(" = {}", d));
        }
        o.push_str(",\n");
    }
    o.push_str("}\n");
    o
}

/// `default_with` helper functions needed by the enum (placed next to it in the module).
pub fn render_dw_helpers(spec: &EnumSpec, tyarg: &str) -> String {
    let mut o = String::new();
    let fix = |t: String| if t == "T" || t == "U" { tyarg.to_string() } else { t };
    for (vi, v) in spec.variants.iter().enumerate() {
        if v.default_with {
            if let Kind::Tuple(fs) = &v.kind {
                if let Some(f) = fs.first() {
                    o.push_str(&format!(
                        "#[allow(dead_code)] fn dw_{}() -> {} {{ {} }}\n",
                        vi,
                        fix(f.ty()).replace("'a", "'static"),
                        f.dw_value().0
                    ));
                }
            }
        }
        if let Kind::Named(fs) = &v.kind {
            for (fi, f) in fs.iter().enumerate() {
                if f.default_with {
                    o.push_str(&format!(
                        "#[allow(dead_code)] fn dw_{}_{}() -> {} {{ {} }}\n",
                        vi,
                        fi,
                        fix(f.ty.ty()).replace("'a", "'static"),
                        f.ty.dw_value().0
                    ));
                }
            }
        }
    }
    o
}

/// `fn vidx(e: &EC) -> usize` : variant index by exhaustive match (trusted glue).
pub fn render_vidx(spec: &EnumSpec, ty_alias: &str, fn_name: &str) -> String {
    let mut o = format!("#[allow(dead_code)] fn {}(e: &{}) -> usize {{\n", fn_name, ty_alias);
    if spec.variants.is_empty() {
        o.push_str("    match *e {}\n}\n");
        return o;
    }
    o.push_str("    match e {\n");
    for (i, v) in spec.variants.iter().enumerate() {
        o.push_str(&format!("        {}::{} {{ .. }} => {},\n", spec.name, v.ident, i));
    }
    o.push_str("    }\n}\n");
    o
}

/// An expression constructing variant `vi` with the given field expressions.
pub fn render_ctor(spec: &EnumSpec, vi: usize, fields: &[String]) -> String {
    let inner = render_ctor_untyped(spec, vi, fields);
    if spec.generics.is_empty() {
        inner
    } else {
        // a value of a generic enum gets its type arguments spelled out (a unit variant alone cannot be inferred)
        // lifetimes are left to inference (a payload may borrow a temporary)
        let inst = spec.generics_inst();
        let inst = if spec.has_lifetime() { inst.replacen("<'static", "<'_", 1) } else { inst };
        format!("vf_core::id::<{}{}>({})", spec.name, inst, inner)
    }
}

pub fn render_ctor_untyped(spec: &EnumSpec, vi: usize, fields: &[String]) -> String {
    let v = &spec.variants[vi];
    match &v.kind {
        Kind::Unit => format!("{}::{}", spec.name, v.ident),
        Kind::Tuple(_) => format!("{}::{}({})", spec.name, v.ident, fields.join(", ")),
        Kind::Named(fs) => {
            let t: Vec<String> =
                fs.iter().zip(fields).map(|(f, e)| format!("{}: {}", f.name, e)).collect();
            format!("{}::{} {{ {} }}", spec.name, v.ident, t.join(", "))
        }
    }
}

/// Debug text (derived `Debug`) of variant `vi` whose fields have the given Debug texts.
/// `r#try` -> `try`: the identifier a raw identifier stands for
pub fn unraw(ident: &str) -> &str {
    ident.strip_prefix("r#").unwrap_or(ident)
}

pub fn debug_text(v: &VariantSpec, fields: &[String]) -> String {
    let id = unraw(&v.ident).to_string();
    if v.kind.nfields() == 0 {
        // derived Debug prints `X` for `X`, `X()` and `X {}`
        return id;
    }
    match &v.kind {
        Kind::Unit => id,
        Kind::Tuple(_) => format!("{}({})", id, fields.join(", ")),
        Kind::Named(fs) => {
            let t: Vec<String> =
                fs.iter().zip(fields).map(|(f, e)| format!("{}: {}", f.name, e)).collect();
            format!("{} {{ {} }}", id, t.join(", "))
        }
    }
}

impl FieldTy {
    /// a const-evaluable expression of the default value (used in `const` items)
    pub fn const_default_expr(&self) -> String {
        match self {
            FieldTy::U8 | FieldTy::I32 | FieldTy::T | FieldTy::U => "0".into(),
            FieldTy::Bool => "false".into(),
            FieldTy::Str => "String::new()".into(),
            FieldTy::SStr | FieldTy::LStr => "\"\"".into(),
            FieldTy::OptU8 => "None".into(),
            FieldTy::Arr2 => "[0, 0]".into(),
            FieldTy::Nd => "vf_core::Nd(0)".into(),
            FieldTy::Raw(t, _) if t.contains("PhantomData") => "::core::marker::PhantomData".into(),
            FieldTy::Raw(t, _) if t.starts_with("Option<") => "None".into(),
            FieldTy::Raw(_, _) => "Default::default()".into(),
        }
    }
}

/// expression building variant `vi` with const-evaluable default payloads
pub fn render_default_value(spec: &EnumSpec, vi: usize) -> String {
    let v = &spec.variants[vi];
    let fields: Vec<String> = match &v.kind {
        Kind::Unit => vec![],
        Kind::Tuple(fs) => fs.iter().map(|f| f.const_default_expr()).collect(),
        Kind::Named(fs) => fs.iter().map(|f| f.ty.const_default_expr()).collect(),
    };
    render_ctor(spec, vi, &fields)
}

impl EnumSpec {
    /// does the definition contain a string literal inside a strum attribute / any strum attribute at all?
    pub fn has_strum_literal(&self) -> bool {
        self.serialize_all.is_some()
            || self.prefix.is_some()
            || self.variants.iter().any(|v| {
                !v.serialize.is_empty()
                    || v.to_string.is_some()
                    || v.message.is_some()
                    || v.detailed_message.is_some()
                    || v.props.iter().flatten().any(|(_, l)| matches!(l, PropLit::S(_)))
                    || v.docs.iter().any(|(_, f)| *f == DocForm::Attr)
            })
    }
    pub fn has_strum_attr(&self) -> bool {
        self.has_strum_literal()
            || self.aci
            || self.use_phf
            || self.parse_err
            || self.const_into_str
            || self.variants.iter().any(|v| v.disabled || v.default || v.transparent || v.default_with || v.aci.is_some() || !v.props.is_empty())
    }
}
