//! A grid of format specs applied to any `Display` value (used differentially: the same grid is
//! applied to the real value and to the reference value, so no formatting semantics are modelled).

use std::fmt::Display;

/// (spec label, rendered string) for every spec of the grid
pub fn fmt_grid<T: Display + ?Sized>(v: &T, wmax: usize, pmax: usize) -> Vec<(String, String)> {
    let mut out = Vec::new();
    macro_rules! both {
        ($lab:expr, $np:literal, $wp:literal) => {
            for w in 0..=wmax {
                out.push((format!("{{:{}{}}}", $lab, w), format!($np, v, w = w)));
                for p in 0..=pmax {
                    out.push((format!("{{:{}{}.{}}}", $lab, w, p), format!($wp, v, w = w, p = p)));
                }
            }
        };
    }
    out.push(("{}".to_string(), format!("{}", v)));
    for p in 0..=pmax {
        out.push((format!("{{:.{}}}", p), format!("{:.p$}", v, p = p)));
    }
    both!("", "{:w$}", "{:w$.p$}");
    both!("<", "{:<w$}", "{:<w$.p$}");
    both!("^", "{:^w$}", "{:^w$.p$}");
    both!(">", "{:>w$}", "{:>w$.p$}");
    both!("*<", "{:*<w$}", "{:*<w$.p$}");
    both!("*^", "{:*^w$}", "{:*^w$.p$}");
    both!("*>", "{:*>w$}", "{:*>w$.p$}");
    both!("é<", "{:é<w$}", "{:é<w$.p$}");
    both!("é^", "{:é^w$}", "{:é^w$.p$}");
    both!("é>", "{:é>w$}", "{:é>w$.p$}");
    both!("0<", "{:0<w$}", "{:0<w$.p$}");
    both!("0>", "{:0>w$}", "{:0>w$.p$}");
    both!("0", "{:0w$}", "{:0w$.p$}");
    both!("+", "{:+w$}", "{:+w$.p$}");
    both!("+0", "{:+0w$}", "{:+0w$.p$}");
    both!("#", "{:#w$}", "{:#w$.p$}");
    out
}
