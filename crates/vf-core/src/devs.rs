//! Deviation-bounded enumeration of the program space (DESIGN.md §3.2).
//!
//! `enumerate(base, devs, k, domain)` returns every spec reachable from `base` by applying a set
//! of at most `k` deviations with pairwise disjoint slots that satisfies the domain predicate,
//! level by level (all 0-deviation programs, then all 1-deviation programs, ...), deduplicated.

use crate::spec::EnumSpec;
use std::collections::HashSet;

pub struct Dev {
    /// shared "shape / syntax / context" deviations: combined with at most ONE other deviation (they multiply the program
    /// count of the k = 3 levels without adding interesting triples)
    pub peripheral: bool,
    pub label: String,
    /// two deviations sharing a slot are incompatible (they edit the same thing)
    pub slots: Vec<String>,
    pub apply: Box<dyn Fn(&mut EnumSpec) -> bool>,
}

pub fn dev(label: impl Into<String>, slots: &[&str], f: impl Fn(&mut EnumSpec) -> bool + 'static) -> Dev {
    Dev { peripheral: false, label: label.into(), slots: slots.iter().map(|s| s.to_string()).collect(), apply: Box::new(f) }
}

pub struct Enumerated {
    pub spec: EnumSpec,
    pub label: String,
    pub k: usize,
}

pub fn enumerate(
    base: &EnumSpec,
    base_label: &str,
    devs: &[Dev],
    k: usize,
    domain: &dyn Fn(&EnumSpec) -> bool,
) -> (Vec<Enumerated>, usize) {
    let mut out = Vec::new();
    let mut seen: HashSet<EnumSpec> = HashSet::new();
    let mut excluded = 0usize;
    for level in 0..=k {
        let mut chosen = Vec::new();
        rec(base, base_label, devs, level, 0, &mut chosen, &mut out, &mut seen, &mut excluded, domain);
    }
    (out, excluded)
}

#[allow(clippy::too_many_arguments)]
fn rec(
    base: &EnumSpec,
    base_label: &str,
    devs: &[Dev],
    level: usize,
    start: usize,
    chosen: &mut Vec<usize>,
    out: &mut Vec<Enumerated>,
    seen: &mut HashSet<EnumSpec>,
    excluded: &mut usize,
    domain: &dyn Fn(&EnumSpec) -> bool,
) {
    if chosen.len() == level {
        let mut s = base.clone();
        let mut label = base_label.to_string();
        for &i in chosen.iter() {
            if !(devs[i].apply)(&mut s) {
                return;
            }
            label.push_str(" + ");
            label.push_str(&devs[i].label);
        }
        // never valid Rust: two variants with one identifier (a deviation may have renamed one onto another)
        {
            let mut ids: Vec<&str> = s.variants.iter().map(|v| crate::spec::unraw(&v.ident)).collect();
            ids.sort();
            let n = ids.len();
            ids.dedup();
            if ids.len() != n {
                return;
            }
        }
        // never valid Rust: a declared generic parameter that no payload mentions (a later deviation may have removed
        // or re-typed the variant that used it)
        if !generics_all_used(&s) {
            return;
        }
        if !domain(&s) {
            *excluded += 1;
            return;
        }
        if seen.insert(s.clone()) {
            out.push(Enumerated { spec: s, label, k: level });
        }
        return;
    }
    for i in start..devs.len() {
        let clash = chosen.iter().any(|&j| devs[j].slots.iter().any(|s| devs[i].slots.contains(s)));
        if clash {
            continue;
        }
        if level >= 3 && (devs[i].peripheral || chosen.iter().any(|&j| devs[j].peripheral)) {
            continue;
        }
        // two peripheral deviations are not combined with one another either
        if devs[i].peripheral && chosen.iter().any(|&j| devs[j].peripheral) {
            continue;
        }
        chosen.push(i);
        rec(base, base_label, devs, level, i + 1, chosen, out, seen, excluded, domain);
        chosen.pop();
    }
}

/// surface-syntax deviations (they do not change the meaning of the definition); append them LAST so that
/// they see the attributes added by the other deviations
fn syntax_devs_inner(literals: bool, ints: bool, attrs: bool, docs: bool) -> Vec<Dev> {
    let mut d = Vec::new();
    if literals {
        for f in ["raw-literals", "escaped-literals"] {
            d.push(dev(format!("syntax: {}", f), &["synlit"], move |s| {
                if !s.has_strum_literal() {
                    return false;
                }
                s.syntax.push(f.to_string());
                true
            }));
        }
    }
    if ints {
        for f in ["hex-ints", "underscore-ints", "suffixed-ints"] {
            d.push(dev(format!("syntax: {}", f), &["synint"], move |s| {
                if !s.variants.iter().any(|v| v.props.iter().flatten().any(|(_, l)| matches!(l, crate::spec::PropLit::I(_)))) {
                    return false;
                }
                s.syntax.push(f.to_string());
                true
            }));
        }
    }
    if attrs {
        for f in ["trailing-commas", "cfg_attr"] {
            d.push(dev(format!("syntax: {}", f), &["synattr"], move |s| {
                if !s.has_strum_attr() {
                    return false;
                }
                s.syntax.push(f.to_string());
                true
            }));
        }
    }
    if attrs {
        // attributes that are not strum's and carry no documentation text: every derive has to step over them
        d.push(dev("syntax: #[doc(hidden)] / #[doc(alias = ..)] / #[allow(..)] / #[non_exhaustive] on the variants", &["synforeign"], |s| {
            if s.variants.is_empty() {
                return false;
            }
            let n = s.variants.len();
            s.variants[0].docs.insert(0, ("hidden".into(), crate::spec::DocForm::Marker));
            s.variants[n - 1].docs.push(("alias = \"zz\"".into(), crate::spec::DocForm::Marker));
            s.variants[n / 2].extra_attrs.push("#[allow(dead_code)]".into());
            // an attribute that is only legal on a variant (not on a fn / impl item): it must not be copied onto generated items
            s.variants[n - 1].extra_attrs.push("#[non_exhaustive]".into());
            true
        }));
    }
    if docs {
        d.push(dev("syntax: block-docs", &["syndoc"], |s| {
            if !s.variants.iter().any(|v| v.docs.iter().any(|(t, f)| *f == crate::spec::DocForm::Comment && !t.is_empty())) {
                return false;
            }
            s.syntax.push("block-docs".to_string());
            true
        }));
        // the documentation lines placed after (or split around) the variant's other attributes (seed C14-w: only the
        // leading run of doc attributes was collected)
        d.push(dev("syntax: docs-after-attrs", &["syndocpos"], |s| {
            if !s.variants.iter().any(|v| !v.docs.is_empty()) {
                return false;
            }
            s.syntax.push("docs-after-attrs".to_string());
            true
        }));
        d.push(dev("syntax: docs-split", &["syndocpos"], |s| {
            if !s.variants.iter().any(|v| v.docs.len() >= 2) {
                return false;
            }
            s.syntax.push("docs-split".to_string());
            true
        }));
    }
    d
}

/// Generic parameter lists beyond a single parameter: several parameters of different kinds, bounds given only in a
/// `where` clause, a lifetime next to type and const parameters. Every parameter is used by variant 0 (and 1).
/// `lifetime_ok`: the derive under test admits lifetime parameters.
fn rich_generic_devs_inner(lifetime_ok: bool) -> Vec<Dev> {
    use crate::spec::{FieldTy, Generic, Kind, NamedField};
    let phantom = || FieldTy::Raw("::core::marker::PhantomData<[u8; N]>".into(), "PhantomData<[u8; 3]>".into());
    let free0 = |s: &EnumSpec| !s.variants.is_empty() && !s.variants[0].default && !s.variants[0].transparent && !s.variants[0].default_with;
    let mut d = Vec::new();
    if lifetime_ok {
        d.push(dev("generic<'a, T: Default, const N: usize> where T: Clone", &["gen", "kind0"], move |s| {
            if !free0(s) {
                return false;
            }
            s.generics = vec![Generic::Lifetime { name: "a".into() }, Generic::Type { name: "T".into(), bounds: "Default".into() }, Generic::Const { name: "N".into() }];
            s.where_clause = Some("T: Clone".into());
            s.variants[0].kind = Kind::Tuple(vec![FieldTy::LStr, FieldTy::T, phantom()]);
            true
        }));
    }
    d.push(dev("generic<T: Default, U: Default> where U: Copy", &["gen", "kind0", "kind1"], move |s| {
        if !free0(s) || s.variants.len() < 2 || s.variants[1].default || s.variants[1].transparent || s.variants[1].default_with {
            return false;
        }
        s.generics = vec![Generic::Type { name: "T".into(), bounds: "Default".into() }, Generic::Type { name: "U".into(), bounds: "Default".into() }];
        s.where_clause = Some("U: Copy".into());
        s.variants[0].kind = Kind::Tuple(vec![FieldTy::T]);
        s.variants[1].kind = Kind::Named(vec![NamedField { name: "u".into(), ty: FieldTy::U, default_with: false }]);
        true
    }));
    d.push(dev("generic<P> used only behind PhantomData / Option, instantiated with a type without Default and Display", &["gen", "kind0"], move |s| {
        if !free0(s) {
            return false;
        }
        s.generics = vec![Generic::Type { name: "P".into(), bounds: "".into() }];
        s.variants[0].kind = Kind::Tuple(vec![FieldTy::Raw("::core::marker::PhantomData<P>".into(), "PhantomData<vf_core::harness::Nd>".into()), FieldTy::Raw("Option<P>".into(), "None".into())]);
        true
    }));
    d.push(dev("payload types that mention Self", &["gen", "kind0"], move |s| {
        if !free0(s) {
            return false;
        }
        s.variants[0].kind = Kind::Named(vec![NamedField { name: "next".into(), ty: FieldTy::Raw("Option<&'static Self>".into(), "None".into()), default_with: false }, NamedField { name: "n".into(), ty: FieldTy::U8, default_with: false }]);
        true
    }));
    d.push(dev("generic<const N: usize> that no variant uses (the enum may stay field-less)", &["gen"], move |s| {
        s.generics = vec![Generic::Const { name: "N".into() }];
        true
    }));
    d.push(dev("generic<T: Default = u8> (defaulted type parameter)", &["gen", "kind0"], move |s| {
        if !free0(s) {
            return false;
        }
        s.generics = vec![Generic::Type { name: "T".into(), bounds: "Default = u8".into() }];
        s.variants[0].kind = Kind::Tuple(vec![FieldTy::T]);
        true
    }));
    d.push(dev("generic<T, const N: usize> where T: Default + Copy (bounds only in the where clause)", &["gen", "kind0"], move |s| {
        if !free0(s) {
            return false;
        }
        s.generics = vec![Generic::Type { name: "T".into(), bounds: "".into() }, Generic::Const { name: "N".into() }];
        s.where_clause = Some("T: Default + Copy".into());
        s.variants[0].kind = Kind::Tuple(vec![FieldTy::T, phantom()]);
        true
    }));
    d
}

/// Declaration-context deviation: the enum (and all the glue items) is declared inside the body of `run` instead of at
/// module level. The meaning of the definition is unchanged; generated code that relies on module-level paths to reach the
/// enum or its helper items (an inner `mod`, `self::`/`super::` paths) stops compiling.
fn context_devs_inner() -> Vec<Dev> {
    vec![
        dev("context: enum declared inside a fn body", &["ctx"], |s| {
            s.syntax.push("in-fn".into());
            true
        }),
        dev("context: a `type Result<T> = ..` alias is in scope where the enum is declared", &["ctx", "evis", "dvis"], |s| {
            s.syntax.push("result-alias".into());
            true
        }),
        dev("context: the enum is declared through a macro_rules! macro (custom error type / function passed as macro arguments)", &["ctx"], |s| {
            s.syntax.push("via-macro".into());
            true
        }),
        dev("context: an iterator extension trait with `fn get(&mut self, usize)` is in scope (as itertools has)", &["ctx", "evis", "dvis"], |s| {
            s.syntax.push("iter-ext-trait".into());
            true
        }),
        dev("context: the declaring module has #![forbid(unsafe_code)]", &["ctx", "evis", "dvis"], |s| {
            s.syntax.push("forbid-unsafe".into());
            true
        }),
        dev("context: the enum's variants are glob-imported where it is declared (`use E::*;`)", &["ctx"], |s| {
            s.syntax.push("variants-in-scope".into());
            true
        }),
        dev("context: the enum has inherent methods into / clone / eq / get / as_ref / from / default with unrelated signatures", &["ctx"], |s| {
            s.syntax.push("inherent-methods".into());
            true
        }),
    ]
}

/// applied by `finish`: move every item that precedes `pub fn run(..)` into its body
pub fn into_fn_body(source: &str) -> String {
    let marker = "pub fn run(ctx: &mut vf_core::Ctx) {\n";
    match source.find(marker) {
        Some(p) => {
            let (before, after) = source.split_at(p);
            format!("{}{}\n{}", marker, before, &after[marker.len()..])
        }
        None => source.to_string(),
    }
}

/// Variant shapes that are legal but rare: empty field lists `V()` / `V {}` (not unit variants syntactically), and a second
/// variant whose identifier differs from the first one's only in letter case (`Kk` / `KK`).
/// `case_twin`: whether two such identifiers are inside the domain of the derive under test.
fn rare_shape_devs_inner(n: usize, case_twin: bool) -> Vec<Dev> {
    use crate::spec::Kind;
    let mut d = Vec::new();
    for i in 0..n {
        d.push(dev(format!("v{}.kind=tuple0 `V()`", i), &[&format!("kind{}", i)], move |s| {
            if i >= s.variants.len() || s.variants[i].default || s.variants[i].transparent || s.variants[i].default_with {
                return false;
            }
            s.variants[i].kind = Kind::Tuple(vec![]);
            true
        }));
        d.push(dev(format!("v{}.kind=named0 `V {{}}`", i), &[&format!("kind{}", i)], move |s| {
            if i >= s.variants.len() || s.variants[i].default || s.variants[i].transparent || s.variants[i].default_with {
                return false;
            }
            s.variants[i].kind = Kind::Named(vec![]);
            true
        }));
    }
    d.push(dev("v0.ident=r#type (raw identifier variant)", &["id0"], |s| {
        if s.variants.is_empty() || s.variants.iter().any(|v| crate::spec::unraw(&v.ident) == "type") {
            return false;
        }
        s.variants[0].ident = "r#type".into();
        true
    }));
    if n >= 3 {
        d.push(dev("tuple variants of DEcreasing arity: v0(u8, String), v1(bool), v2()", &["kind0", "kind1", "kind2"], |s| {
            use crate::spec::FieldTy;
            if s.variants.len() < 3 || s.variants.iter().take(3).any(|v| v.default || v.transparent || v.default_with) {
                return false;
            }
            s.variants[0].kind = Kind::Tuple(vec![FieldTy::U8, FieldTy::Str]);
            s.variants[1].kind = Kind::Tuple(vec![FieldTy::Bool]);
            s.variants[2].kind = Kind::Tuple(vec![]);
            true
        }));
    }
    d.push(dev("every disabled variant is written #[strum(serialize = \"zq<i>\", disabled, message = \"m\")] (keys before and after `disabled`)", &["disattrs"], |s| {
        let mut any = false;
        for (i, v) in s.variants.iter_mut().enumerate() {
            if v.disabled && v.serialize.is_empty() && v.to_string.is_none() && v.message.is_none() {
                v.serialize = vec![format!("zq{}", i)];
                v.message = Some("m".into());
                any = true;
            }
        }
        any
    }));
    if case_twin && n >= 2 {
        d.push(dev("v1.ident = v0.ident in upper case (identifiers that differ only in letter case)", &["id1"], |s| {
            if s.variants.len() < 2 {
                return false;
            }
            let up = crate::spec::unraw(&s.variants[0].ident).to_uppercase();
            if s.variants.iter().any(|v| v.ident == up) {
                return false;
            }
            s.variants[1].ident = up;
            true
        }));
    }
    d
}

/// every declared generic parameter occurs in the type text of some field (as a whole word)
pub fn generics_all_used(s: &EnumSpec) -> bool {
    use crate::spec::{Generic, Kind};
    if s.generics.is_empty() {
        return true;
    }
    let mut text = String::new();
    for v in &s.variants {
        match &v.kind {
            Kind::Unit => {}
            Kind::Tuple(fs) => fs.iter().for_each(|f| {
                text.push_str(&f.ty());
                text.push(' ');
            }),
            Kind::Named(fs) => fs.iter().for_each(|f| {
                text.push_str(&f.ty.ty());
                text.push(' ');
            }),
        }
    }
    let has_word = |w: &str| {
        let b = text.as_bytes();
        let mut from = 0;
        while let Some(p) = text[from..].find(w) {
            let i = from + p;
            let before_ok = i == 0 || !(b[i - 1].is_ascii_alphanumeric() || b[i - 1] == b'_');
            let j = i + w.len();
            let after_ok = j >= b.len() || !(b[j].is_ascii_alphanumeric() || b[j] == b'_');
            if before_ok && after_ok {
                return true;
            }
            from = i + w.len();
        }
        false
    };
    s.generics.iter().all(|g| match g {
        Generic::Type { name, .. } => has_word(name),
        Generic::Const { .. } => true, // a const parameter need not be used
        Generic::Lifetime { name } => text.contains(&format!("'{}", name)),
    })
}

/// Scope deviation for the derives whose generated code is written with full paths for the prelude's Ok / Err / Some / None
/// (all but EnumIter and EnumTryAs on the unchanged tree): these names are re-bound where the enum is declared.
fn rebound_prelude_devs_inner() -> Vec<Dev> {
    vec![dev("context: Ok / Err / Some / None are re-bound in the scope of the enum", &["ctx", "evis", "dvis", "dd"], |s| {
        s.syntax.push("rebound-prelude-fns".into());
        true
    })]
}

pub fn syntax_devs(literals: bool, ints: bool, attrs: bool, docs: bool) -> Vec<Dev> {
    let mut v = syntax_devs_inner(literals, ints, attrs, docs);
    for d in v.iter_mut() {
        d.peripheral = true;
    }
    v
}

pub fn rich_generic_devs(lifetime_ok: bool) -> Vec<Dev> {
    let mut v = rich_generic_devs_inner(lifetime_ok);
    for d in v.iter_mut() {
        d.peripheral = true;
    }
    v
}

pub fn context_devs() -> Vec<Dev> {
    let mut v = context_devs_inner();
    for d in v.iter_mut() {
        d.peripheral = true;
    }
    v
}

pub fn rare_shape_devs(n: usize, case_twin: bool) -> Vec<Dev> {
    let mut v = rare_shape_devs_inner(n, case_twin);
    for d in v.iter_mut() {
        d.peripheral = true;
    }
    v
}

pub fn rebound_prelude_devs() -> Vec<Dev> {
    let mut v = rebound_prelude_devs_inner();
    for d in v.iter_mut() {
        d.peripheral = true;
    }
    v
}
