//! Deviation-bounded enumeration of the program space (DESIGN.md §3.2).
//!
//! `enumerate(base, devs, k, domain)` returns every spec reachable from `base` by applying a set
//! of at most `k` deviations with pairwise disjoint slots that satisfies the domain predicate,
//! level by level (all 0-deviation programs, then all 1-deviation programs, ...), deduplicated.

use crate::spec::EnumSpec;
use std::collections::HashSet;

pub struct Dev {
    pub label: String,
    /// two deviations sharing a slot are incompatible (they edit the same thing)
    pub slots: Vec<String>,
    pub apply: Box<dyn Fn(&mut EnumSpec) -> bool>,
}

pub fn dev(label: impl Into<String>, slots: &[&str], f: impl Fn(&mut EnumSpec) -> bool + 'static) -> Dev {
    Dev { label: label.into(), slots: slots.iter().map(|s| s.to_string()).collect(), apply: Box::new(f) }
}

pub struct Enumerated {
    pub spec: EnumSpec,
    pub label: String,
    pub k: usize,
}

pub fn enumerate(
    base: &EnumSpec,
    base_label: &str,
    devs: &[Dev],
    k: usize,
    domain: &dyn Fn(&EnumSpec) -> bool,
) -> (Vec<Enumerated>, usize) {
    let mut out = Vec::new();
    let mut seen: HashSet<EnumSpec> = HashSet::new();
    let mut excluded = 0usize;
    for level in 0..=k {
        let mut chosen = Vec::new();
        rec(base, base_label, devs, level, 0, &mut chosen, &mut out, &mut seen, &mut excluded, domain);
    }
    (out, excluded)
}

#[allow(clippy::too_many_arguments)]
fn rec(
    base: &EnumSpec,
    base_label: &str,
    devs: &[Dev],
    level: usize,
    start: usize,
    chosen: &mut Vec<usize>,
    out: &mut Vec<Enumerated>,
    seen: &mut HashSet<EnumSpec>,
    excluded: &mut usize,
    domain: &dyn Fn(&EnumSpec) -> bool,
) {
    if chosen.len() == level {
        let mut s = base.clone();
        let mut label = base_label.to_string();
        for &i in chosen.iter() {
            if !(devs[i].apply)(&mut s) {
                return;
            }
            label.push_str(" + ");
            label.push_str(&devs[i].label);
        }
        if !domain(&s) {
            *excluded += 1;
            return;
        }
        if seen.insert(s.clone()) {
            out.push(Enumerated { spec: s, label, k: level });
        }
        return;
    }
    for i in start..devs.len() {
        let clash = chosen.iter().any(|&j| devs[j].slots.iter().any(|s| devs[i].slots.contains(s)));
        if clash {
            continue;
        }
        chosen.push(i);
        rec(base, base_label, devs, level, i + 1, chosen, out, seen, excluded, domain);
        chosen.pop();
    }
}
