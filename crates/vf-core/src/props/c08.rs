//! C08 — COUNT, VariantNames, VariantArray and EnumIter describe the same variant list.

use super::*;
use crate::devs::{dev, enumerate, Dev};
use crate::harness::Ctx;
use crate::refsem;
use crate::spec::*;
use serde_json::json;

pub fn def() -> PropDef {
    PropDef {
        id: "C08",
        mode: Mode::Run,
        programs,
        strum_features: &["derive"],
        profiles: &["dev"],
        rule: "programs: N=0..Nmax variants x every subset of disabled positions x <=k deviations (variant kind, explicit discriminant, serialize / to_string, two neighbouring \
               variants sharing one name, prefix, serialize_all, generics). Field-less non-generic enums derive EnumCount + VariantNames + EnumIter + VariantArray, the others the \
               first three. oracle: COUNT == #enabled == iter().count(); VariantNames::VARIANTS == R-name of every declared variant in order; VariantArray::VARIANTS is every declared \
               variant in order; with no disabled variant all four lengths agree and position i denotes the same variant in each (VariantArray[i] == iter().nth(i), VARIANTS[i] its name). \
               non-trivial = program with a disabled variant, a naming attribute, an explicit discriminant or data; distinct per (program, observation)",
        trusted_base: &["rustc", "generated vidx() match", "vf-core R-name / R-enabled"],
        assumptions: &[],
        required_outcomes: &["fieldless", "mixed", "has-disabled", "all-enabled-cross-check", "duplicate-names"],
    }
}

pub fn programs(tier: Tier) -> ProgramSet {
    let (nmax, k) = match tier {
        Tier::Quick => (4usize, 1usize),
        Tier::Thorough => (6usize, 2usize),
    };
    let mut out = Vec::new();
    for n in 0..=nmax {
        for mask in 0u32..(1 << n) {
            let mut base = EnumSpec::base(n);
            for i in 0..n {
                if mask & (1 << i) != 0 {
                    base.variants[i].disabled = true;
                }
            }
            let mut devs: Vec<Dev> = Vec::new();
            for i in 0..n {
                for (kn, kd) in [("tuple1", Kind::Tuple(vec![FieldTy::U8])), ("named1", Kind::Named(vec![NamedField { name: "x".into(), ty: FieldTy::Str, default_with: false }]))] {
                    devs.push(dev(format!("v{}.kind={}", i, kn), &[&format!("kind{}", i)], move |s| {
                        s.variants[i].kind = kd.clone();
                        true
                    }));
                }
                devs.push(dev(format!("v{} = {}", i, 9 - 2 * i as i32), &[&format!("disc{}", i)], move |s| {
                    if s.variants.iter().any(|v| !v.kind.is_unit()) {
                        return false;
                    }
                    s.variants[i].disc = Some(format!("{}", 9 - 2 * i as i32));
                    true
                }));
                devs.push(dev(format!("v{}.serialize=[\"z\",\"abc\"]", i), &[&format!("ser{}", i)], move |s| {
                    s.variants[i].serialize = vec!["z".into(), "abc".into()];
                    true
                }));
                // the WORD disabled inside a literal does not disable anything
                devs.push(dev(format!("v{}.serialize=\"disabled\" + to_string=\"account-disabled\"", i), &[&format!("ser{}", i), &format!("tos{}", i)], move |s| {
                    s.variants[i].serialize = vec!["disabled".into()];
                    s.variants[i].to_string = Some("account-disabled".into());
                    true
                }));
                // the longest literal is listed FIRST (the name is the longest, not the last one)
                devs.push(dev(format!("v{}.serialize=[\"blue\",\"b\"]", i), &[&format!("ser{}", i)], move |s| {
                    s.variants[i].serialize = vec!["blue".into(), "b".into()];
                    true
                }));
                devs.push(dev(format!("v{}.to_string=\"Tt\"", i), &[&format!("tos{}", i)], move |s| {
                    s.variants[i].to_string = Some("Tt".into());
                    true
                }));
                // a name with characters that need escaping in a literal: a backslash followed by `n`, and a double quote
                devs.push(dev(format!("v{}.to_string=\"q\\\"b\\\\n\"", i), &[&format!("tos{}", i)], move |s| {
                    s.variants[i].to_string = Some("q\"b\\n".into());
                    true
                }));
                if i + 1 < n {
                    devs.push(dev(format!("v{},v{}.to_string=\"dup\"", i, i + 1), &[&format!("tos{}", i), &format!("tos{}", i + 1)], move |s| {
                        s.variants[i].to_string = Some("dup".into());
                        s.variants[i + 1].to_string = Some("dup".into());
                        true
                    }));
                }
            }
            devs.push(dev("prefix=\"p.\"", &["prefix"], |s| {
                s.prefix = Some("p.".into());
                true
            }));
            for st in ["lowercase", "SCREAMING_SNAKE_CASE"] {
                devs.push(dev(format!("serialize_all={:?}", st), &["style"], move |s| {
                    s.serialize_all = Some(st.to_string());
                    true
                }));
            }
            for i in 0..n {
                devs.push(dev(format!("v{}: doc comment + #[allow(dead_code)]", i), &[&format!("nonstrum{}", i)], move |s| {
                    s.variants[i].docs.push((" documented".into(), DocForm::Comment));
                    s.variants[i].extra_attrs.push("#[allow(dead_code)]".into());
                    true
                }));
            }
            devs.push(dev("generic<T: Default>", &["gen", "kind0"], |s| {
                if s.variants.is_empty() || s.variants.iter().any(|v| v.disc.is_some()) {
                    return false;
                }
                s.generics = vec![Generic::Type { name: "T".into(), bounds: "Default".into() }];
                s.variants[0].kind = Kind::Tuple(vec![FieldTy::T]);
                true
            }));
            devs.extend(crate::devs::rich_generic_devs(false));
            devs.extend(crate::devs::syntax_devs(false, false, true, false).into_iter().filter(|d| d.label.contains("doc(hidden)")));
            devs.extend(crate::devs::context_devs());
            devs.extend(crate::devs::rare_shape_devs(n, true));
            for i in 0..n {
                devs.push(dev(format!("v{}.default (tuple1 String)", i), &[&format!("kind{}", i), "default"], move |s| {
                    if s.variants[i].disabled || s.variants[i].disc.is_some() || !s.generics.is_empty() {
                        return false;
                    }
                    s.variants[i].default = true;
                    s.variants[i].kind = Kind::Tuple(vec![FieldTy::Str]);
                    true
                }));
            }
            let dis: Vec<String> = (0..n).filter(|i| mask & (1 << i) != 0).map(|i| i.to_string()).collect();
            let label = format!("B{} disabled={{{}}}", n, dis.join(","));
            let (specs, _) = enumerate(&base, &label, &devs, k, &|s: &EnumSpec| {
                // explicit discriminants must be unique (rustc) — computed with C06's rule
                let has_data = s.variants.iter().any(|v| !v.kind.is_unit());
                let has_explicit = s.variants.iter().any(|v| v.disc.is_some());
                if has_data && has_explicit {
                    return false; // rustc: needs a primitive repr
                }
                match super::c06::discriminants(s) {
                    Some(d) => {
                        let mut x = d.clone();
                        x.sort();
                        x.dedup();
                        x.len() == d.len() && d.iter().all(|v| *v >= 0)
                    }
                    None => false,
                }
            });
            for e in specs {
                let source = render(&e.spec);
                out.push(Program { idx: 0, label: e.label, k: e.k, spec: e.spec, aux: json!(null), source });
            }
        }
    }
    // SCALE: large field-less and mixed enums
    for (n, mixed, dis) in [(9usize, false, false), (17, false, true), (33, true, false), (40, false, false), (257, false, true), (256, false, false), (300, false, false)] {
        let mut spec = EnumSpec::base(0);
        for i in 0..n {
            let mut v = VariantSpec::unit(&format!("Var{}Name", i));
            if dis && i % 6 == 2 {
                v.disabled = true;
            }
            if mixed && i % 5 == 1 {
                v.kind = Kind::Tuple(vec![FieldTy::U8]);
            }
            if i % 9 == 4 {
                v.to_string = Some(format!("name-{}", i));
            }
            spec.variants.push(v);
        }
        spec.serialize_all = Some("kebab-case".into());
        let source = render(&spec);
        out.push(Program { idx: 0, label: format!("SCALE: {} variants{}{}", n, if mixed { ", mixed kinds" } else { "" }, if dis { ", some disabled" } else { "" }), k: 1, spec, aux: json!(null), source });
    }
    ProgramSet { programs: finish(out), excluded: Default::default(), bounds: json!({"N_max": nmax, "disabled_subsets": "all 2^N", "k_max": k, "scale_N": [9, 17, 33, 40, 256, 257, 300]}) }
}

fn fieldless(spec: &EnumSpec) -> bool {
    spec.variants.iter().all(|v| v.kind.is_unit()) && spec.generics.is_empty()
}

pub fn render(spec: &EnumSpec) -> String {
    let mut derives = vec!["Debug", "strum::EnumCount", "strum::VariantNames", "strum::EnumIter"];
    if fieldless(spec) {
        derives.push("strum::VariantArray");
    }
    let mut o = String::new();
    o.push_str(&render_enum(spec, &derives));
    o.push_str(&format!("type EC = {}{};\n", spec.name, spec.generics_inst()));
    o.push_str(&render_vidx(spec, "EC", "vidx"));
    o.push_str(
        r#"pub fn run(ctx: &mut vf_core::Ctx) {
    use strum::IntoEnumIterator;
    let count = <EC as strum::EnumCount>::COUNT;
    let names: Vec<String> = <EC as strum::VariantNames>::VARIANTS.iter().map(|s| s.to_string()).collect();
    let iter: Result<Vec<usize>, String> = vf_core::guard(|| EC::iter().take(1024).map(|v| vidx(&v)).collect());
    let nth: Result<Vec<Option<usize>>, String> = vf_core::guard(|| (0..count + 1).map(|i| EC::iter().nth(i).map(|v| vidx(&v))).collect());
"#,
    );
    if fieldless(spec) {
        o.push_str("    let arr: Option<Vec<usize>> = Some(<EC as strum::VariantArray>::VARIANTS.iter().map(|v| vidx(v)).collect());\n");
    } else {
        o.push_str("    let arr: Option<Vec<usize>> = None;\n");
    }
    o.push_str("    vf_core::props::c08::check(ctx, count, names, iter, nth, arr);\n}\n");
    o
}

pub fn check(ctx: &mut Ctx, count: usize, names: Vec<String>, iter: Result<Vec<usize>, String>, nth: Result<Vec<Option<usize>>, String>, arr: Option<Vec<usize>>) {
    let spec = ctx.spec().clone();
    let en = refsem::enabled(&spec);
    let n = spec.variants.len();
    ctx.state();
    let nontrivial = spec.variants.iter().any(|v| v.disabled || v.to_string.is_some() || !v.serialize.is_empty() || v.disc.is_some() || !v.kind.is_unit())
        || spec.prefix.is_some()
        || spec.serialize_all.is_some();
    let mut nt = |ctx: &mut Ctx, ok: bool, key: &str| {
        if ok && nontrivial {
            ctx.nontrivial(&key);
        }
    };
    ctx.outcome(if arr.is_some() { "fieldless" } else { "mixed" });
    if en.len() < n {
        ctx.outcome("has-disabled");
    }
    ctx.transitions(4);
    let ok = ctx.expect_eq("COUNT", "<E as EnumCount>::COUNT", &en.len().to_string(), &count.to_string());
    nt(ctx, ok, "COUNT");
    let it = match &iter {
        Ok(v) => format!("{:?}", v),
        Err(m) => format!("PANIC({})", m),
    };
    let ok = ctx.expect_eq("iter", "E::iter() as variant indices", &format!("{:?}", en), &it);
    nt(ctx, ok, "iter");
    let want_names: Vec<String> = spec.variants.iter().map(|v| refsem::name(&spec, v).unwrap_or_default()).collect();
    let ok = ctx.expect_eq("VariantNames", "<E as VariantNames>::VARIANTS", &format!("{:?}", want_names), &format!("{:?}", names));
    nt(ctx, ok, "names");
    {
        let mut s = want_names.clone();
        s.dedup();
        if s.len() != want_names.len() {
            ctx.outcome("duplicate-names");
        }
    }
    if let Some(a) = &arr {
        let want: Vec<usize> = (0..n).collect();
        let ok = ctx.expect_eq("VariantArray", "<E as VariantArray>::VARIANTS as variant indices", &format!("{:?}", want), &format!("{:?}", a));
        nt(ctx, ok, "array");
    }
    // nth(i) agrees with the iteration order
    let want_nth: Vec<Option<usize>> = (0..count + 1).map(|i| en.get(i).cloned()).collect();
    let g = match &nth {
        Ok(v) => format!("{:?}", v),
        Err(m) => format!("PANIC({})", m),
    };
    let ok = ctx.expect_eq("iter-nth", "(0..=COUNT).map(|i| E::iter().nth(i))", &format!("{:?}", want_nth), &g);
    nt(ctx, ok, "nth");
    // cross-derive agreement without a reference in the middle
    if en.len() == n {
        ctx.outcome("all-enabled-cross-check");
        ctx.transition();
        let it_len = iter.as_ref().map(|v| v.len()).unwrap_or(usize::MAX);
        let lens = format!("COUNT={} iter={} names={} array={:?}", count, it_len, names.len(), arr.as_ref().map(|a| a.len()));
        let want = format!("COUNT={} iter={} names={} array={:?}", n, n, n, arr.as_ref().map(|_| n));
        let ok = ctx.expect_eq("lengths-agree", "all four lengths", &want, &lens);
        nt(ctx, ok, "lens");
        if let (Some(a), Ok(itv)) = (&arr, &iter) {
            ctx.transition();
            let ok = ctx.expect_eq("array-vs-iter", "VariantArray::VARIANTS[i] == E::iter().nth(i)", &format!("{:?}", itv), &format!("{:?}", a));
            nt(ctx, ok, "arr-iter");
        }
        if let Ok(itv) = &iter {
            ctx.transition();
            let by_iter: Vec<String> = itv.iter().map(|&vi| spec.variants.get(vi).and_then(|v| refsem::name(&spec, v)).unwrap_or_default()).collect();
            let ok = ctx.expect_eq("names-vs-iter", "VARIANTS[i] is the name of the i-th iterated value", &format!("{:?}", by_iter), &format!("{:?}", names));
            nt(ctx, ok, "names-iter");
        }
    }
    if ctx.want_sample() && nontrivial && ctx.program.idx % 61 == 0 {
        ctx.sample(json!({"program": ctx.program.label, "enum": render_enum(&spec, &["strum::EnumCount", "strum::VariantNames", "strum::EnumIter"]),
            "COUNT": count, "VARIANTS": names, "iter": it, "VariantArray": arr}));
    }
}
