//! C10 — EnumTable is a total map from enabled variants to values.
//! History-space search (H) with stateright: BFS to fixpoint over (real table, reference array).

use super::*;
use crate::harness::Ctx;
use crate::refsem;
use crate::spec::*;
use serde_json::json;
use stateright::{Checker, Model, Property};
use std::collections::BTreeSet;
use std::hash::{Hash, Hasher};
use std::sync::{Arc, Mutex};

pub fn def() -> PropDef {
    PropDef {
        id: "C10",
        mode: Mode::Run,
        programs,
        strum_features: &["derive"],
        profiles: &["dev", "release"],
        rule: "programs: field-less enums with n=1..nmax enabled variants x every subset of {first, middle, last} positions holding an additional disabled variant x {implicit, \
               descending explicit, gapped explicit} discriminants x identifier sets with digits/acronyms/underscores (field names go through snakify); plus probes for enums named \
               E/F/T/U. per enum: stateright BFS to fixpoint; initial states new(1,2,..), filled(7), from_closure(injective f), default(); actions table[k] = v for every declared key \
               (disabled included) x v in {0,1,2}; the real table is rebuilt by replaying the history. In every state: table[k] == ref[k] for every enabled key, table[disabled] and \
               table[disabled] = v panic, transform(|k, v| (k, *v)) per key, all() is Some iff no slot is 0 (then equal), all_ok() returns the first Err in declaration order, \
               from_closure called f exactly once per enabled variant in order. non-trivial = every state after at least one write; distinct per (program, constructor, state)",
        trusted_base: &["rustc", "generated key()/vidx() matches and the DynTable glue", "derived Debug of the table as part of the state key", "stateright 0.31 BFS"],
        assumptions: &["value alphabet {0,1,2} plus the constructor's initial values; table element type u8"],
        required_outcomes: &["write-read", "disabled-index-panics", "all-some", "all-none", "all_ok-err-not-first-slot", "transform"],
    }
}

pub fn programs(tier: Tier) -> ProgramSet {
    let nmax = match tier {
        Tier::Quick => 3usize,
        Tier::Thorough => 5usize,
    };
    // declaration order is deliberately NOT alphabetical (neither by identifier nor by generated field name)
    let ident_sets: Vec<Vec<&str>> = vec![vec!["Mm", "Kk", "I_j", "G2h", "DEf"], vec!["V1", "HTTPServer", "V_1", "A1", "Utf8To16"], vec!["Café2", "Ünï3x", "Straße", "r#type", "Z9"],
        // identifiers whose lower-case form is a reserved word (a field named after the variant needs more than a keyword list)
        vec!["Abstract", "Final", "Try", "Yield", "Box"]];
    let mut out = Vec::new();
    let mut add = |label: String, spec: EnumSpec, out: &mut Vec<Program>| {
        let source = render(&spec);
        out.push(Program { idx: 0, label, k: 0, spec, aux: json!(null), source });
    };
    for n in 1..=nmax {
        for (isi, ids) in ident_sets.iter().enumerate() {
            if isi == 1 && tier == Tier::Quick && n != 3 {
                continue;
            }
            for dmask in 0u32..8 {
                for disc in ["implicit", "descending", "gapped"] {
                    if tier == Tier::Quick && disc == "gapped" && dmask != 0 {
                        continue;
                    }
                    let mut s = EnumSpec::base(n);
                    s.name = "En".into();
                    for i in 0..n {
                        s.variants[i].ident = ids[i % ids.len()].to_string();
                    }
                    // insert disabled variants (from the back so positions stay valid)
                    let mut ins: Vec<(usize, &str)> = Vec::new();
                    if dmask & 4 != 0 {
                        ins.push((n, "Zl"));
                    }
                    if dmask & 2 != 0 && n >= 2 {
                        ins.push((n / 2, "Zm"));
                    } else if dmask & 2 != 0 {
                        continue;
                    }
                    if dmask & 1 != 0 {
                        ins.push((0, "Zf"));
                    }
                    for (pos, name) in ins {
                        let mut d = VariantSpec::unit(name);
                        d.disabled = true;
                        s.variants.insert(pos, d);
                    }
                    let total = s.variants.len();
                    match disc {
                        "descending" => {
                            for (i, v) in s.variants.iter_mut().enumerate() {
                                v.disc = Some(format!("{}", (total - i) * 2));
                            }
                        }
                        "gapped" => {
                            s.variants[0].disc = Some("5".into());
                            if total > 1 {
                                s.variants[total - 1].disc = Some("0".into());
                            }
                        }
                        _ => {}
                    }
                    add(format!("n={} idents#{} disabled_at={{{}{}{}}} disc={}", n, isi, if dmask & 1 != 0 { "first " } else { "" }, if dmask & 2 != 0 { "middle " } else { "" }, if dmask & 4 != 0 { "last" } else { "" }, disc), s, &mut out);
                }
            }
        }
    }
    // `disabled` written next to other keys in the same list (before and after them)
    {
        let mut s = EnumSpec::base(4);
        s.name = "En".into();
        s.variants[1].disabled = true;
        s.variants[1].message = Some("m".into());
        s.variants[2].disabled = true;
        s.variants[2].serialize = vec!["ss".into()];
        add("B4 + v1: #[strum(disabled, message = ..)] + v2: #[strum(serialize = .., disabled)]".to_string(), s, &mut out);
    }
    // declaration context: enum, table and glue inside a fn body
    {
        let mut s = EnumSpec::base(3);
        s.name = "En".into();
        s.variants[1].disabled = true;
        s.syntax.push("in-fn".into());
        add("B3 + v1.disabled + context: declared inside a fn body".to_string(), s, &mut out);
    }
    {
        let mut s = EnumSpec::base(3);
        s.name = "En".into();
        s.variants[0].disabled = true;
        s.syntax.push("result-alias".into());
        add("B3 + v0.disabled + context: `type Result<T>` alias in scope".to_string(), s, &mut out);
    }
    for (flag, lab) in [("variants-in-scope", "the enum's variants are glob-imported (`use En::*;`)"), ("inherent-methods", "the enum has inherent methods into / clone / eq / get ..")] {
        let mut s = EnumSpec::base(3);
        s.name = "En".into();
        s.variants[2].disabled = true;
        s.syntax.push(flag.into());
        add(format!("B3 + v2.disabled + context: {}", lab), s, &mut out);
    }
    // SCALE: wide tables (more slots than any hand-written test; reduced write alphabet, see explore)
    for n in (if tier == Tier::Quick { vec![9usize] } else { vec![9usize, 12] }) {
        let mut s = EnumSpec::base(0);
        s.name = "En".into();
        for i in 0..n {
            s.variants.push(VariantSpec::unit(&format!("W{}x", (n * 7 - i * 5) % 97)));
        }
        let mut d = VariantSpec::unit("Zm");
        d.disabled = true;
        s.variants.insert(n / 2, d);
        add(format!("SCALE: wide table n={} + disabled variant middle", n), s, &mut out);
    }
    // name hygiene probes: the template's own generic parameters are called T, U, F, E
    for name in ["E", "F", "T", "U"] {
        let mut s = EnumSpec::base(2);
        s.name = name.into();
        add(format!("probe: enum named {}", name), s, &mut out);
    }
    ProgramSet {
        programs: finish(out),
        excluded: Default::default(),
        bounds: json!({"n_enabled_max": nmax, "disabled_positions": "all subsets of {first, middle, last}", "values": [0, 1, 2], "constructors": ["new", "filled", "from_closure", "default"], "search": "BFS to fixpoint"}),
    }
}

pub fn render(spec: &EnumSpec) -> String {
    let name = &spec.name;
    let mut o = String::new();
    o.push_str(&render_enum(spec, &["Debug", "strum::EnumTable"]));
    o.push_str(&render_vidx(spec, name, "vidx"));
    if spec.variants.iter().any(|v| v.disabled) && !spec.syntax.iter().any(|x| x == "in-fn") {
        o.push_str("#[allow(dead_code)]\n#[derive(Debug, strum::EnumTable)]\npub enum Neighbour { Nn, #[strum(disabled)] Oo, Pp }\n");
    }
    let n = spec.variants.len();
    o.push_str(&format!("fn key(i: usize) -> {} {{\n    match i {{\n", name));
    for (i, v) in spec.variants.iter().enumerate() {
        o.push_str(&format!("        {} => {}::{},\n", i, name, v.ident));
    }
    o.push_str("        _ => unreachable!(),\n    }\n}\n");
    let en = refsem::enabled(spec);
    let enl: Vec<String> = en.iter().map(|i| i.to_string()).collect();
    let newargs: Vec<String> = (0..en.len()).map(|j| format!("{}", j + 1)).collect();
    // the value type of a table needs no Clone / Copy / Default for new, from_closure, transform, indexing, all, all_ok
    let nc_args: Vec<String> = (0..en.len()).map(|j| format!("NoTraits({})", j)).collect();
    o.push_str(&format!(
        "#[allow(dead_code)]\nstruct NoTraits(u8);\n#[allow(dead_code)]\nfn _value_type_needs_no_traits() {{\n    let mut t = {name}Table::<NoTraits>::new({args});\n    let t2 = {name}Table::<NoTraits>::from_closure(|_| NoTraits(0));\n    let t3 = t2.transform(|_, v| ::core::option::Option::Some(NoTraits(v.0)));\n    let _ = t3.all();\n    let t4 = t.transform(|_, v| ::core::result::Result::<NoTraits, NoTraits>::Ok(NoTraits(v.0)));\n    let _ = t4.all_ok();\n    // closures that CAPTURE (a local, another table), and callables passed by reference / boxed\n    let base = 3u8;\n    let t5 = {name}Table::<u8>::from_closure(|_| base);\n    let t6 = {name}Table::<u8>::from_closure(move |_| base + 1);\n    let t7 = t5.transform(|k, v| *v + t6[k]);\n    let f: &dyn Fn({name}) -> u8 = &|_| base;\n    let _ = {name}Table::<u8>::from_closure(f);\n    let g: Box<dyn Fn({name}, &u8) -> u8> = Box::new(move |_, v| *v + base);\n    let _ = t7.transform(g);\n    // callers may write the generic arguments out\n    let _ = t7.transform::<u16, _>(|_, v| *v as u16);\n    let _ = {name}Table::<u8>::from_closure::<fn({name}) -> u8>(|_| 0);\n    t[key(ENABLED[0])] = NoTraits(9);\n    let _ = &t[key(ENABLED[0])];\n    // the key's type is known from the index position only (`.into()`, as with `\"..\".parse().unwrap()`)\n    let _ = &t[key(ENABLED[0]).into()];\n    t[key(ENABLED[0]).into()] = NoTraits(1);\n}}\n",
        name = name,
        args = nc_args.join(", ")
    ));
    o.push_str(&format!(
        r#"const ENABLED: &[usize] = &[{enl}];
thread_local! {{ static CALLS: std::cell::RefCell<Vec<usize>> = std::cell::RefCell::new(Vec::new()); }}
struct W({name}Table<u8>);
impl vf_core::props::c10::DynTable for W {{
    fn get(&self, i: usize) -> Result<u8, String> {{ vf_core::guard(|| self.0[key(i)]) }}
    fn set(&mut self, i: usize, v: u8) -> Result<(), String> {{ vf_core::guard(|| {{ self.0[key(i)] = v; }}) }}
    fn debug(&self) -> String {{ format!("{{:?}}", self.0) }}
    fn transform_probe(&self) -> Result<Vec<(usize, u8)>, String> {{
        vf_core::guard(|| {{ let t = self.0.transform(|k, v| (vidx(&k), *v)); ENABLED.iter().map(|&i| t[key(i)]).collect() }})
    }}
    fn all(&self) -> Result<Option<Vec<u8>>, String> {{
        vf_core::guard(|| self.0.transform(|_, v| if *v == 0 {{ None }} else {{ Some(*v) }}).all().map(|t| ENABLED.iter().map(|&i| t[key(i)]).collect()))
    }}
    fn all_ok(&self) -> Result<Result<Vec<u8>, usize>, String> {{
        vf_core::guard(|| self.0.transform(|k, v| if *v == 0 {{ Err(vidx(&k)) }} else {{ Ok(*v) }}).all_ok().map(|t| ENABLED.iter().map(|&i| t[key(i)]).collect()))
    }}
    fn eq_clone(&self) -> bool {{ self.0.clone() == self.0 }}
}}
fn mk(ctor: usize) -> Result<(Box<dyn vf_core::props::c10::DynTable>, Vec<usize>), String> {{
    vf_core::guard(|| {{
        CALLS.with(|c| c.borrow_mut().clear());
        let t: {name}Table<u8> = match ctor {{
            0 => {name}Table::new({newargs}),
            1 => {name}Table::filled(7),
            2 => {name}Table::from_closure(|k| {{ CALLS.with(|c| c.borrow_mut().push(vidx(&k))); 10 + vidx(&k) as u8 }}),
            _ => {name}Table::default(),
        }};
        let calls = CALLS.with(|c| c.borrow().clone());
        (Box::new(W(t)) as Box<dyn vf_core::props::c10::DynTable>, calls)
    }})
}}
pub fn run(ctx: &mut vf_core::Ctx) {{
    vf_core::props::c10::explore(ctx, mk, {n});
}}
"#,
        enl = enl.join(", "),
        name = name,
        newargs = newargs.join(", "),
        n = n
    ));
    o
}

pub trait DynTable {
    fn get(&self, i: usize) -> Result<u8, String>;
    fn set(&mut self, i: usize, v: u8) -> Result<(), String>;
    fn debug(&self) -> String;
    fn transform_probe(&self) -> Result<Vec<(usize, u8)>, String>;
    fn all(&self) -> Result<Option<Vec<u8>>, String>;
    fn all_ok(&self) -> Result<Result<Vec<u8>, usize>, String>;
    fn eq_clone(&self) -> bool;
}

type Mk = fn(usize) -> Result<(Box<dyn DynTable>, Vec<usize>), String>;

#[derive(Clone, Debug)]
pub struct St {
    ctor: usize,
    hist: Vec<(usize, u8)>,
    real_dbg: String,
    /// reference: one value per enabled variant, in declaration order
    refv: Vec<u8>,
    bad: bool,
}
impl Hash for St {
    fn hash<H: Hasher>(&self, h: &mut H) {
        self.ctor.hash(h);
        self.real_dbg.hash(h);
        self.refv.hash(h);
        self.bad.hash(h);
        if self.bad {
            self.hist.hash(h);
        }
    }
}
impl PartialEq for St {
    fn eq(&self, o: &Self) -> bool {
        self.ctor == o.ctor && self.real_dbg == o.real_dbg && self.refv == o.refv && self.bad == o.bad && (!self.bad || self.hist == o.hist)
    }
}

#[derive(Default)]
pub struct Collector {
    pub transitions: u64,
    pub real_calls: u64,
    pub violations: Vec<(String, String, String, String)>,
    pub outcomes: BTreeSet<&'static str>,
    pub ref_states: BTreeSet<(usize, Vec<u8>)>,
}

pub struct TableModel {
    mk: Mk,
    /// declared variants: enabled flags
    enabled: Vec<bool>,
    /// value alphabet of the writes and constructors explored (wide tables use a reduced one)
    values: Vec<u8>,
    ctors: Vec<usize>,
    col: Arc<Mutex<Collector>>,
}

fn show(ctor: usize, hist: &[(usize, u8)], idents: &[String]) -> String {
    let c = ["ETable::new(1, 2, ..)", "ETable::filled(7)", "ETable::from_closure(|k| 10 + index(k))", "ETable::default()"][ctor.min(3)];
    let mut s = format!("let mut t = {};", c);
    for (k, v) in hist {
        s.push_str(&format!(" t[E::{}] = {};", idents.get(*k).cloned().unwrap_or_default(), v));
    }
    s
}

impl TableModel {
    fn slots(&self) -> Vec<usize> {
        self.enabled.iter().enumerate().filter(|(_, e)| **e).map(|(i, _)| i).collect()
    }
    fn init_ref(&self, ctor: usize) -> Vec<u8> {
        let sl = self.slots();
        match ctor {
            0 => (0..sl.len()).map(|j| (j + 1) as u8).collect(),
            1 => vec![7; sl.len()],
            2 => sl.iter().map(|&i| 10 + i as u8).collect(),
            _ => vec![0; sl.len()],
        }
    }

    /// all checks of one state; Err((kind, expected, observed))
    fn state_checks(&self, t: &dyn DynTable, refv: &[u8], calls: &mut u64, outs: &mut Vec<&'static str>) -> Result<(), (String, String, String)> {
        let sl = self.slots();
        for (i, en) in self.enabled.iter().enumerate() {
            *calls += 1;
            let g = t.get(i);
            if *en {
                let j = sl.iter().position(|&x| x == i).unwrap();
                if g != Ok(refv[j]) {
                    return Err(("index".into(), format!("t[key #{}] == {}", i, refv[j]), format!("{:?}", g)));
                }
            } else {
                if g.is_ok() {
                    return Err(("index-disabled".into(), format!("t[disabled key #{}] panics", i), format!("{:?}", g)));
                }
                outs.push("disabled-index-panics");
            }
        }
        *calls += 4;
        let want_t: Vec<(usize, u8)> = sl.iter().zip(refv).map(|(i, v)| (*i, *v)).collect();
        let g = t.transform_probe();
        if g.as_ref() != Ok(&want_t) {
            return Err(("transform".into(), format!("transform(|k, v| (k, *v))[k] for every enabled k == {:?}", want_t), format!("{:?}", g)));
        }
        outs.push("transform");
        let want_all: Option<Vec<u8>> = if refv.iter().all(|v| *v != 0) { Some(refv.to_vec()) } else { None };
        let g = t.all();
        if g.as_ref() != Ok(&want_all) {
            return Err(("all".into(), format!("{:?}", want_all), format!("{:?}", g)));
        }
        outs.push(if want_all.is_some() { "all-some" } else { "all-none" });
        let first_err = sl.iter().zip(refv).find(|(_, v)| **v == 0).map(|(i, _)| *i);
        let want_ok: Result<Vec<u8>, usize> = match first_err {
            Some(i) => Err(i),
            None => Ok(refv.to_vec()),
        };
        let g = t.all_ok();
        if g.as_ref() != Ok(&want_ok) {
            return Err(("all_ok".into(), format!("{:?} (the first Err in declaration order)", want_ok), format!("{:?}", g)));
        }
        if let Some(i) = first_err {
            if i != sl[0] && refv.iter().filter(|v| **v == 0).count() >= 2 {
                outs.push("all_ok-err-not-first-slot");
            }
        }
        if !t.eq_clone() {
            return Err(("clone-eq".into(), "t.clone() == t".into(), "false".into()));
        }
        Ok(())
    }

    fn rebuild(&self, ctor: usize, hist: &[(usize, u8)], calls: &mut u64) -> Option<Box<dyn DynTable>> {
        let (mut t, _) = (self.mk)(ctor).ok()?;
        for (k, v) in hist {
            *calls += 1;
            let _ = t.set(*k, *v);
        }
        Some(t)
    }
}

impl Model for TableModel {
    type State = St;
    type Action = (usize, u8);

    fn init_states(&self) -> Vec<St> {
        let mut out = Vec::new();
        for &ctor in &self.ctors {
            let refv = self.init_ref(ctor);
            let mut calls = 1;
            let mut outs = Vec::new();
            let (bad, dbg) = match (self.mk)(ctor) {
                Err(m) => {
                    self.col.lock().unwrap().violations.push(("constructor-panic".into(), format!("constructor #{}", ctor), "no panic".into(), m));
                    (true, String::new())
                }
                Ok((t, closure_calls)) => {
                    let mut bad = false;
                    if ctor == 2 {
                        let want = self.slots();
                        if closure_calls != want {
                            self.col.lock().unwrap().violations.push(("from_closure-calls".into(), "ETable::from_closure(f)".into(), format!("f called once per enabled variant in order: {:?}", want), format!("{:?}", closure_calls)));
                            bad = true;
                        }
                    }
                    if let Err((k, e, o)) = self.state_checks(t.as_ref(), &refv, &mut calls, &mut outs) {
                        self.col.lock().unwrap().violations.push((k, format!("constructor #{} (0=new(1,2,..) 1=filled(7) 2=from_closure 3=default)", ctor), e, o));
                        bad = true;
                    }
                    (bad, t.debug())
                }
            };
            let mut c = self.col.lock().unwrap();
            c.real_calls += calls;
            for o in outs {
                c.outcomes.insert(o);
            }
            c.ref_states.insert((ctor, refv.clone()));
            out.push(St { ctor, hist: vec![], real_dbg: dbg, refv, bad });
        }
        out
    }

    fn actions(&self, s: &St, out: &mut Vec<(usize, u8)>) {
        if s.bad {
            return;
        }
        for k in 0..self.enabled.len() {
            for &v in &self.values {
                out.push((k, v));
            }
        }
    }

    fn next_state(&self, s: &St, a: (usize, u8)) -> Option<St> {
        let mut calls = 0u64;
        let mut outs: Vec<&'static str> = Vec::new();
        let mut t = self.rebuild(s.ctor, &s.hist, &mut calls)?;
        let (k, v) = a;
        let mut refv = s.refv.clone();
        let mut hist = s.hist.clone();
        hist.push(a);
        calls += 1;
        let r = t.set(k, v);
        let mut res: Result<(), (String, String, String)> = Ok(());
        if self.enabled[k] {
            let j = self.slots().iter().position(|&x| x == k).unwrap();
            refv[j] = v;
            if let Err(m) = r {
                res = Err(("index_mut-panic".into(), "no panic".into(), m));
            } else {
                outs.push("write-read");
            }
        } else if r.is_ok() {
            res = Err(("index_mut-disabled".into(), format!("t[disabled key #{}] = {} panics", k, v), "no panic".into()));
        }
        if res.is_ok() {
            res = self.state_checks(t.as_ref(), &refv, &mut calls, &mut outs);
        }
        let mut c = self.col.lock().unwrap();
        c.transitions += 1;
        c.real_calls += calls;
        for o in outs {
            c.outcomes.insert(o);
        }
        match res {
            Ok(()) => {
                c.ref_states.insert((s.ctor, refv.clone()));
                Some(St { ctor: s.ctor, hist, real_dbg: t.debug(), refv, bad: false })
            }
            Err((kind, e, o)) => {
                if c.violations.len() < 8 {
                    c.violations.push((kind, format!("ctor#{} writes {:?}", s.ctor, hist), e, o));
                }
                Some(St { ctor: s.ctor, hist, real_dbg: t.debug(), refv, bad: true })
            }
        }
    }

    fn properties(&self) -> Vec<Property<Self>> {
        vec![Property::<Self>::always("table conforms to the reference map", |_, s: &St| !s.bad)]
    }
}

pub fn explore(ctx: &mut Ctx, mk: Mk, n_declared: usize) {
    let spec = ctx.spec().clone();
    assert_eq!(n_declared, spec.variants.len());
    let enabled: Vec<bool> = spec.variants.iter().map(|v| !v.disabled).collect();
    let idents: Vec<String> = spec.variants.iter().map(|v| v.ident.clone()).collect();
    let n_en = enabled.iter().filter(|e| **e).count();
    let col = Arc::new(Mutex::new(Collector::default()));
    // wide tables: writes of 0 only, from new(1,2,..) and filled(7) — still reaches every pattern of zero / non-zero slots,
    // i.e. every pattern of Some/None and Ok/Err positions for all() / all_ok()
    let wide = n_en > 6;
    let (values, ctors): (Vec<u8>, Vec<usize>) = if wide { (vec![0], vec![0, 1]) } else { (vec![0, 1, 2], vec![0, 1, 2, 3]) };
    let model = TableModel { mk, enabled, values: values.clone(), ctors: ctors.clone(), col: col.clone() };
    let checker = model.checker().threads(1).spawn_bfs().join();
    let states = checker.unique_state_count() as u64;
    let depth = checker.max_depth();
    let c = col.lock().unwrap();
    ctx.states(states);
    ctx.transitions(c.transitions);
    ctx.rep.evaluations += c.real_calls;
    ctx.rep.traces += c.real_calls;
    ctx.count("bfs_states", states);
    ctx.count("max_depth", depth as u64);
    for o in &c.outcomes {
        ctx.outcome(o);
    }
    for (k, h, e, o) in &c.violations {
        // rewrite "ctor#N writes [..]" into a readable program
        let input = if let Some(rest) = h.strip_prefix("ctor#") {
            let ctor: usize = rest[..1].parse().unwrap_or(0);
            let hist: Vec<(usize, u8)> = rest[1..]
                .trim_start_matches(" writes ")
                .trim_matches(|ch| ch == '[' || ch == ']')
                .split("), (")
                .filter_map(|p| {
                    let p = p.trim_matches(|ch| ch == '(' || ch == ')');
                    let mut it = p.split(", ");
                    Some((it.next()?.parse().ok()?, it.next()?.parse().ok()?))
                })
                .collect();
            show(ctor, &hist, &idents)
        } else {
            h.clone()
        };
        ctx.violation(k, &input, e, o);
    }
    for i in 0..states.saturating_sub(ctors.len() as u64) {
        ctx.nontrivial(&i);
    }
    // vacuity: from every constructor all 3^n assignments over {0,1,2} were reached
    if c.violations.is_empty() {
        if wide {
            let want = 2u64.pow(n_en as u32);
            for &ctor in &ctors {
                let got = c.ref_states.iter().filter(|(ct, _)| *ct == ctor).count() as u64;
                if got < want {
                    ctx.machinery(format!("vacuity guard: constructor #{} reached {} of {} zero/non-zero patterns", ctor, got, want));
                }
            }
        } else {
            let want = 3u64.pow(n_en as u32);
            for ctor in 0..4usize {
                let got = c.ref_states.iter().filter(|(ct, r)| *ct == ctor && r.iter().all(|v| *v <= 2)).count() as u64;
                if got < want {
                    ctx.machinery(format!("vacuity guard: constructor #{} reached {} of {} assignments over {{0,1,2}}", ctor, got, want));
                }
            }
        }
    }
    let _ = &values;
    if ctx.want_sample() && n_en >= 2 && spec.variants.iter().any(|v| v.disabled) {
        ctx.sample(json!({"program": ctx.program.label, "enum": render_enum(&spec, &["strum::EnumTable"]), "bfs_unique_states": states, "transitions": c.transitions, "max_depth": depth,
            "example_history": show(0, &[(0, 2), (n_declared - 1, 0)], &idents)}));
    }
}
