//! Per-property program enumerators (P), glue renderers and runtime explorers (I / H).

use crate::harness::{Program, Tier};
use std::collections::BTreeMap;

pub mod c01;
pub mod c02;
pub mod c03;
pub mod c04;
pub mod strfam;
pub mod c05;
pub mod c06;
pub mod c07;
pub mod c08;
pub mod c09;
pub mod c10;
pub mod c11;
pub mod c12;
pub mod c13;
pub mod c14;
pub mod c15;
pub mod c16;
pub mod c17;
pub mod c18;
pub mod c19;
pub mod c20;

#[derive(Clone, Copy, Debug, PartialEq, Eq)]
pub enum Mode {
    /// compile every program, run the explorer of every program
    Run,
    /// property specific driver (C19, C20, C07)
    Custom,
}

pub struct ProgramSet {
    pub programs: Vec<Program>,
    /// programs excluded by the domain predicate, by class
    pub excluded: BTreeMap<String, u64>,
    /// the bounds of this tier, written to the evidence
    pub bounds: serde_json::Value,
}

pub struct PropDef {
    pub id: &'static str,
    pub mode: Mode,
    pub programs: fn(Tier) -> ProgramSet,
    pub strum_features: &'static [&'static str],
    /// cargo profiles the harness is built and run in
    pub profiles: &'static [&'static str],
    pub rule: &'static str,
    pub trusted_base: &'static [&'static str],
    pub assumptions: &'static [&'static str],
    /// outcome classes that must all have been observed (vacuity guard)
    pub required_outcomes: &'static [&'static str],
}

pub fn all() -> Vec<PropDef> {
    vec![c01::def(), c02::def(), c03::def(), c04::def(), c05::def(), c06::def(), c07::def(), c08::def(), c09::def(), c10::def(), c11::def(), c12::def(), c13::def(), c14::def(), c15::def(), c16::def(), c17::def(), c18::def(), c19::def(), c20::def()]
}

pub fn get(id: &str) -> Option<PropDef> {
    all().into_iter().find(|p| p.id == id)
}

/// assign indices
pub fn finish(mut v: Vec<Program>) -> Vec<Program> {
    for (i, p) in v.iter_mut().enumerate() {
        p.idx = i;
        if p.spec.syntax.iter().any(|s| s == "in-fn") {
            p.source = crate::devs::into_fn_body(&p.source);
        }
    }
    v
}
