//! C07 — each serialize_all style renames identifiers to exactly that documented case.

use super::*;
use crate::harness::{Ctx, Obs};
use crate::refsem;
use crate::spec::*;
use serde_json::json;

pub fn def() -> PropDef {
    PropDef {
        id: "C07",
        mode: Mode::Run,
        programs,
        strum_features: &["derive"],
        profiles: &["dev"],
        rule: "layer A: for each of the 16 accepted style strings one enum whose variants are ALL valid identifiers of length <= L over {a, B, 1, _} (VariantNames), \
               VARIANTS[i] == R-case(ident_i, style). layer B: for each of the 16 style strings a dictionary enum of realistic names (acronyms, digits, underscores, non-ASCII) plus \
               variants with explicit serialize / to_string, deriving VariantNames, Display, AsRefStr, IntoStaticStr, EnumString and EnumMessage: every derive prints / accepts exactly \
               R-case(ident) and explicit spellings are never re-cased. The aliases must equal their canonical style (same reference table). layer C (driver stage, see coverage.host): \
               the repository's case_style.rs compiled into an in-process host and called on every identifier of length <= H over {a, b, A, B, 1, _} x 16 style strings. \
               non-trivial = identifier with >= 2 words or a case change; distinct per (style string, identifier, derive)",
        trusted_base: &["rustc", "char::to_uppercase / to_lowercase (std)", "vf-core R-case (independent word splitter)"],
        assumptions: &["identifier alphabet {a, B, 1, _} for the exhaustive layer; the dictionary adds non-ASCII and realistic shapes"],
        required_outcomes: &["multi-word", "acronym", "digit", "underscore", "explicit-not-recased", "alias", "parse-recased"],
    }
}

/// all valid identifiers of length 1..=l over sigma (not starting with a digit, not `_` alone)
pub fn identifiers(sigma: &[char], l: usize) -> Vec<String> {
    let mut out = Vec::new();
    let mut level: Vec<String> = vec![String::new()];
    for _ in 0..l {
        let mut next = Vec::new();
        for p in &level {
            for c in sigma {
                if p.is_empty() && c.is_ascii_digit() {
                    continue;
                }
                let mut s = p.clone();
                s.push(*c);
                next.push(s);
            }
        }
        out.extend(next.iter().filter(|s| s.as_str() != "_").cloned());
        level = next;
    }
    out
}

pub const DICTIONARY: [&str; 53] = [
    "HTTPServer", "HttpServer", "XMLHttpRequest", "Hello2You", "IPv6Addr", "A", "AB", "Ab", "ABc", "ABcD", "X__Y", "X_y", "Foo_Bar", "FOO_BAR", "FooBarBaz", "Sha256Hash",
    "Utf8To16", "V1", "V1a", "A1B2", "Red", "DarkBlack", "BrightWhite", "MyHTTPSConnection", "I", "IO", "IOError", "Os2Warp", "B2b", "Abc123Def", "ABC123def", "Élan", "ÑandÚ",
    "StraßeX", "Ünï", "TestMe_", "Test__Me", "T_", "Aa1_2b", "ZzTop", "NoOp", "PDFLoader2", "X86_64", "Armv7", "Café2", "Straße2You", "Ünï3x",
    // scale: long identifiers (many words, acronym runs, digits)
    // raw identifiers stand for the identifier without `r#`
    "r#type", "r#Match", "r#PaleGreen",
    "ThisIsAVeryLongVariantNameWithManyManyWordsInItForScaleAndThenSomeMoreWordsToBeSure", "HTTP2XMLToJSONConverterV10Beta3RCFinalFINAL2", "Aa0Bb1Cc2Dd3Ee4Ff5Gg6Hh7Ii8Jj9KkLlMmNnOoPpQqRrSsTtUuVvWwXxYyZz",
];

pub fn programs(tier: Tier) -> ProgramSet {
    let l = if tier == Tier::Quick { 5 } else { 6 };
    let mut out = Vec::new();
    let ids = identifiers(&['a', 'B', '1', '_'], l);
    for st in refsem::style_strings() {
        // layer A
        let mut spec = EnumSpec::base(0);
        spec.serialize_all = Some(st.to_string());
        for id in &ids {
            spec.variants.push(VariantSpec::unit(id));
        }
        let source = render_a(&spec);
        out.push(Program { idx: 0, label: format!("A: all {} identifiers of length <= {} over {{a,B,1,_}} under {:?}", ids.len(), l, st), k: 1, spec, aux: json!({"layer": "A"}), source });
        // layer B
        let mut spec = EnumSpec::base(0);
        spec.serialize_all = Some(st.to_string());
        for id in DICTIONARY {
            spec.variants.push(VariantSpec::unit(id));
        }
        let mut e1 = VariantSpec::unit("ExplicitSer");
        e1.serialize = vec!["Explicit_SerKept".into(), "x".into()];
        spec.variants.push(e1);
        let mut e0 = VariantSpec::unit("SameAsIdent");
        e0.serialize = vec!["SameAsIdent".into()];
        spec.variants.push(e0);
        let mut e00 = VariantSpec::unit("KeptToo");
        e00.to_string = Some("KeptToo".into());
        spec.variants.push(e00);
        let mut e2 = VariantSpec::unit("ExplicitToString");
        e2.to_string = Some("explicitTo-String KEPT".into());
        spec.variants.push(e2);
        let mut e3 = VariantSpec::unit("DisabledOne");
        e3.disabled = true;
        spec.variants.push(e3);
        let source = render_b(&spec);
        out.push(Program { idx: 0, label: format!("B: dictionary under {:?}", st), k: 1, spec: spec.clone(), aux: json!({"layer": "B"}), source });
        // the same dictionary with an enum-level prefix: printing derives prepend it to the RE-CASED name, the parser and
        // get_serializations do not use it
        let mut pf = spec.clone();
        pf.prefix = Some("p/".into());
        // .. and every literal of this twin (the style string included) is written as a raw string
        pf.syntax.push("raw-literals".into());
        let source = render_b(&pf);
        out.push(Program { idx: 0, label: format!("B-prefix: dictionary under {:?} with prefix = \"p/\", raw string literals", st), k: 2, spec: pf, aux: json!({"layer": "B"}), source });
        // the same dictionary parsed case-insensitively (enum-level flag, one variant opting out)
        let mut ci = spec.clone();
        ci.aci = true;
        ci.variants[3].aci = Some(Aci::False);
        // .. and every literal of this twin (the style string included) is written with escapes
        ci.syntax.push("escaped-literals".into());
        let source = render_b(&ci);
        out.push(Program { idx: 0, label: format!("B-ci: dictionary under {:?} with ascii_case_insensitive, escaped literals", st), k: 2, spec: ci, aux: json!({"layer": "B"}), source });
    }
    ProgramSet {
        programs: finish(out),
        excluded: Default::default(),
        bounds: json!({"style_strings": refsem::style_strings(), "layer_A": {"alphabet": ["a", "B", "1", "_"], "max_len": l, "identifiers": ids.len()}, "layer_B": {"dictionary": DICTIONARY.len(), "derives": ["VariantNames", "Display", "AsRefStr", "IntoStaticStr", "EnumString", "EnumMessage"]}}),
    }
}

fn render_a(spec: &EnumSpec) -> String {
    let mut o = String::new();
    o.push_str(&render_enum(spec, &["strum::VariantNames"]));
    o.push_str("pub fn run(ctx: &mut vf_core::Ctx) {\n    let names: Vec<&'static str> = <E as strum::VariantNames>::VARIANTS.to_vec();\n    vf_core::props::c07::check_a(ctx, names);\n}\n");
    o
}

fn render_b(spec: &EnumSpec) -> String {
    let mut o = String::new();
    o.push_str(&render_enum(spec, &["Debug", "PartialEq", "strum::VariantNames", "strum::Display", "strum::AsRefStr", "strum::IntoStaticStr", "strum::EnumString", "strum::EnumMessage"]));
    o.push_str(&render_vidx(spec, "E", "vidx"));
    o.push_str("pub fn run(ctx: &mut vf_core::Ctx) {\n    let names: Vec<&'static str> = <E as strum::VariantNames>::VARIANTS.to_vec();\n    let mut obs: Vec<(usize, &'static str, Vec<String>)> = Vec::new();\n");
    for (i, v) in spec.variants.iter().enumerate() {
        let e = format!("E::{}", v.ident);
        if !v.disabled {
            o.push_str(&format!("    obs.push(({i}, \"Display\", vec![{e}.to_string()]));\n    obs.push(({i}, \"AsRefStr\", vec![AsRef::<str>::as_ref(&{e}).to_string()]));\n    obs.push(({i}, \"IntoStaticStr\", vec![<&'static str as From<&E>>::from(&{e}).to_string()]));\n", i = i, e = e));
        }
        o.push_str(&format!("    obs.push(({i}, \"get_serializations\", strum::EnumMessage::get_serializations(&{e}).iter().map(|s| s.to_string()).collect()));\n", i = i, e = e));
    }
    o.push_str(
        r#"    let mut parse = |s: &str| match vf_core::guard(|| <E as core::str::FromStr>::from_str(s)) {
        Ok(Ok(v)) => vf_core::Obs::Ok(vidx(&v), format!("{:?}", v)),
        Ok(Err(e)) => vf_core::Obs::Err(format!("{:?}", e)),
        Err(m) => vf_core::Obs::Panic(m),
    };
    vf_core::props::c07::check_b(ctx, names, obs, &mut parse);
}
"#,
    );
    o
}

fn classify(ctx: &mut Ctx, id: &str) -> bool {
    let words = refsem::split_words(id);
    let mut nontrivial = false;
    if words.len() >= 2 {
        ctx.outcome("multi-word");
        nontrivial = true;
    }
    if id.chars().any(|c| c.is_ascii_digit()) {
        ctx.outcome("digit");
    }
    if id.contains('_') {
        ctx.outcome("underscore");
    }
    let cs: Vec<char> = id.chars().collect();
    if cs.windows(3).any(|w| w[0].is_uppercase() && w[1].is_uppercase() && w[2].is_lowercase()) {
        ctx.outcome("acronym");
    }
    if cs.iter().any(|c| c.is_uppercase()) && cs.iter().any(|c| c.is_lowercase()) {
        nontrivial = true;
    }
    nontrivial
}

fn is_alias(s: &str) -> bool {
    matches!(s, "camel_case" | "snek_case" | "kebab_case" | "shouty_snake_case" | "shouty_snek_case")
}

pub fn check_a(ctx: &mut Ctx, names: Vec<&'static str>) {
    let spec = ctx.spec().clone();
    let st = spec.serialize_all.clone().unwrap();
    if is_alias(&st) {
        ctx.outcome("alias");
    }
    if names.len() != spec.variants.len() {
        ctx.violation("VARIANTS-len", &st, &spec.variants.len().to_string(), &names.len().to_string());
        return;
    }
    for (v, got) in spec.variants.iter().zip(names.iter()) {
        ctx.state();
        ctx.transition();
        let want = refsem::recase_opt(&v.ident, &spec.serialize_all);
        let ok = ctx.expect_eq("recase", &format!("{} under serialize_all = {:?} (VariantNames)", v.ident, st), &want, got);
        if classify(ctx, &v.ident) && ok {
            ctx.nontrivial(&v.ident);
        }
        if ctx.want_sample() && v.ident == "aBB1a" {
            ctx.sample(json!({"style": st, "identifier": v.ident, "expected": want, "observed": got}));
        }
    }
}

pub fn check_b(ctx: &mut Ctx, names: Vec<&'static str>, obs: Vec<(usize, &'static str, Vec<String>)>, parse: &mut dyn FnMut(&str) -> Obs) {
    let spec = ctx.spec().clone();
    let st = spec.serialize_all.clone().unwrap();
    if is_alias(&st) {
        ctx.outcome("alias");
    }
    let want_names: Vec<String> = spec.variants.iter().map(|v| refsem::name(&spec, v).unwrap_or_default()).collect();
    ctx.state();
    ctx.transition();
    ctx.expect_eq("VariantNames", &format!("VARIANTS under {:?}", st), &format!("{:?}", want_names), &format!("{:?}", names));
    for (i, what, got) in obs {
        let v = &spec.variants[i];
        ctx.transition();
        let explicit = v.to_string.is_some() || !v.serialize.is_empty();
        let want: Vec<String> = if what == "get_serializations" { refsem::as_set(&refsem::spellings(&spec, v)) } else { vec![want_names[i].clone()] };
        let got = if what == "get_serializations" { refsem::as_set(&got) } else { got };
        let ok = ctx.expect_eq(&format!("recase-{}", what), &format!("{} under serialize_all = {:?} ({})", v.ident, st, what), &format!("{:?}", want), &format!("{:?}", got));
        if explicit {
            ctx.outcome("explicit-not-recased");
        }
        if classify(ctx, &v.ident) && ok {
            ctx.nontrivial(&(i, what));
        }
    }
    // the parser accepts exactly the re-cased identifier (first declared variant wins on collisions)
    let mut inputs: Vec<String> = Vec::new();
    for v in &spec.variants {
        for s in refsem::spellings(&spec, v) {
            inputs.push(s);
        }
        inputs.push(v.ident.clone());
        for style in [refsem::Style::Snake, refsem::Style::Kebab, refsem::Style::Pascal, refsem::Style::Lower, refsem::Style::Upper, refsem::Style::Title, refsem::Style::Train, refsem::Style::ScreamingSnake, refsem::Style::ScreamingKebab, refsem::Style::Mixed] {
            inputs.push(refsem::recase(&v.ident, style));
        }
    }
    inputs.sort();
    inputs.dedup();
    for s in inputs {
        ctx.state();
        ctx.transition();
        let want = match refsem::parse(&spec, &s) {
            refsem::Parsed::Ok(i, d) => Obs::Ok(i, d),
            refsem::Parsed::Err => Obs::Err("VariantNotFound".into()),
        };
        let got = parse(&s);
        let ok = ctx.expect_eq("parse-recased", &format!("from_str({:?}) under {:?}", s, st), &want.show(), &got.show());
        if ok && matches!(want, Obs::Ok(..)) {
            ctx.outcome("parse-recased");
            ctx.nontrivial(&("parse", s.clone()));
        }
    }
    if ctx.want_sample() {
        ctx.sample(json!({"style": st, "dictionary_names": want_names.iter().take(8).collect::<Vec<_>>()}));
    }
}
