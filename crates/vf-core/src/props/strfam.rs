//! Shared pieces of the string family (C01, C02, C11, C12, C16, C18): deviation alphabets,
//! the parse glue and the parse explorer.

use crate::devs::{dev, Dev};
use crate::harness::{Ctx, Obs};
use crate::inputs::{self, InputCfg};
use crate::refsem::{self, Parsed};
use crate::spec::*;
use serde_json::json;

pub fn pool_small() -> Vec<&'static str> {
    vec!["x", "Xy", "XY", "é", "", "BbCc"]
}
pub fn pool_full() -> Vec<&'static str> {
    vec!["x", "xy", "Xy", "XY", "x1", "é", "xé", "", " x", "aa", "BbCc", "bb_cc", "Aa", "Kk", "ss"]
}

pub fn data_kinds() -> Vec<(&'static str, Kind)> {
    vec![
        ("tuple1", Kind::Tuple(vec![FieldTy::U8])),
        ("tuple2", Kind::Tuple(vec![FieldTy::Str, FieldTy::Bool])),
        ("named1", Kind::Named(vec![NamedField { name: "x".into(), ty: FieldTy::I32, default_with: false }])),
        (
            "named2",
            Kind::Named(vec![
                NamedField { name: "x".into(), ty: FieldTy::OptU8, default_with: false },
                NamedField { name: "y".into(), ty: FieldTy::Arr2, default_with: false },
            ]),
        ),
    ]
}

pub struct AlphaCfg {
    pub pool: Vec<&'static str>,
    pub pool_b: Vec<&'static str>,
    pub kinds: bool,
    pub disabled: bool,
    pub default: bool,
    pub default_with: bool,
    pub aci: bool,
    pub layouts: bool,
    pub styles: Vec<&'static str>,
    pub enum_aci: bool,
    pub generics: bool,
    pub resize: bool,
}

/// per-variant and enum-level deviations of the string family for a base with n variants
pub fn alphabet(n: usize, c: &AlphaCfg) -> Vec<Dev> {
    let mut devs: Vec<Dev> = Vec::new();
    for i in 0..n {
        for l in &c.pool {
            let l2 = l.to_string();
            devs.push(dev(format!("v{}.serialize={:?}", i, l), &[&format!("serA{}", i)], move |s| {
                if i >= s.variants.len() {
                    return false;
                }
                s.variants[i].serialize.insert(0, l2.clone());
                true
            }));
        }
        for l in &c.pool_b {
            let l2 = l.to_string();
            devs.push(dev(format!("v{}.serialize+={:?}", i, l), &[&format!("serB{}", i)], move |s| {
                if i >= s.variants.len() || s.variants[i].serialize.contains(&l2) {
                    return false;
                }
                s.variants[i].serialize.push(l2.clone());
                true
            }));
        }
        for l in &c.pool {
            let l2 = l.to_string();
            devs.push(dev(format!("v{}.to_string={:?}", i, l), &[&format!("tos{}", i)], move |s| {
                if i >= s.variants.len() {
                    return false;
                }
                s.variants[i].to_string = Some(l2.clone());
                true
            }));
        }
        // case twins inside one variant (one deviation, so that it combines with a flag or a style at k = 2)
        devs.push(dev(format!("v{}.serialize=\"yes\"+to_string=\"Yes\"", i), &[&format!("serA{}", i), &format!("tos{}", i)], move |s| {
            if i >= s.variants.len() {
                return false;
            }
            s.variants[i].serialize.insert(0, "yes".into());
            s.variants[i].to_string = Some("Yes".into());
            true
        }));
        if c.kinds {
            devs.push(dev(format!("v{}.ident=ÉtéÑu", i), &[&format!("ident{}", i)], move |s| {
                if i >= s.variants.len() || s.variants.iter().any(|v| v.ident == "ÉtéÑu") {
                    return false;
                }
                s.variants[i].ident = "ÉtéÑu".into();
                true
            }));
            devs.push(dev(format!("v{}.ident=r#try", i), &[&format!("ident{}", i)], move |s| {
                if i >= s.variants.len() || s.variants.iter().any(|v| v.ident == "r#try") {
                    return false;
                }
                s.variants[i].ident = "r#try".into();
                true
            }));
            for (kn, kd) in data_kinds() {
                devs.push(dev(format!("v{}.kind={}", i, kn), &[&format!("kind{}", i)], move |s| {
                    if i >= s.variants.len() {
                        return false;
                    }
                    s.variants[i].kind = kd.clone();
                    true
                }));
            }
        }
        if c.disabled {
            devs.push(dev(format!("v{}.disabled", i), &[&format!("dis{}", i)], move |s| {
                if i >= s.variants.len() {
                    return false;
                }
                s.variants[i].disabled = true;
                true
            }));
        }
        if c.default {
            devs.push(dev(format!("v{}.default(tuple String)", i), &[&format!("kind{}", i), "default"], move |s| {
                if i >= s.variants.len() {
                    return false;
                }
                s.variants[i].default = true;
                s.variants[i].kind = Kind::Tuple(vec![FieldTy::Str]);
                true
            }));
            // the catch-all field may be any type that is From<&str>, not only String
            devs.push(dev(format!("v{}.default(tuple Box<str>)", i), &[&format!("kind{}", i), "default"], move |s| {
                if i >= s.variants.len() {
                    return false;
                }
                s.variants[i].default = true;
                s.variants[i].kind = Kind::Tuple(vec![FieldTy::Raw("Box<str>".into(), "\"\"".into())]);
                true
            }));
            devs.push(dev(format!("v{}.default(named String)", i), &[&format!("kind{}", i), "default"], move |s| {
                if i >= s.variants.len() {
                    return false;
                }
                s.variants[i].default = true;
                s.variants[i].kind = Kind::Named(vec![NamedField { name: "inner".into(), ty: FieldTy::Str, default_with: false }]);
                true
            }));
        }
        if c.default_with {
            devs.push(dev(format!("v{}.default_with(tuple Nd)", i), &[&format!("kind{}", i)], move |s| {
                if i >= s.variants.len() {
                    return false;
                }
                s.variants[i].default_with = true;
                s.variants[i].kind = Kind::Tuple(vec![FieldTy::Nd]);
                true
            }));
            devs.push(dev(format!("v{}.default_with(named Nd,u8 + String)", i), &[&format!("kind{}", i)], move |s| {
                if i >= s.variants.len() {
                    return false;
                }
                s.variants[i].kind = Kind::Named(vec![
                    NamedField { name: "a".into(), ty: FieldTy::Nd, default_with: true },
                    NamedField { name: "b".into(), ty: FieldTy::U8, default_with: false },
                    NamedField { name: "c".into(), ty: FieldTy::Str, default_with: true },
                ]);
                true
            }));
        }
        if c.aci {
            // a case-insensitive explicit spelling in one deviation (combines with a case twin on another variant at k = 2)
            devs.push(dev(format!("v{}.serialize=\"XY\"+ascii_case_insensitive", i), &[&format!("serA{}", i), &format!("aci{}", i)], move |s| {
                if i >= s.variants.len() {
                    return false;
                }
                s.variants[i].serialize.insert(0, "XY".into());
                s.variants[i].aci = Some(Aci::Bare);
                true
            }));
            for (an, a) in [("bare", Aci::Bare), ("=true", Aci::True), ("=false", Aci::False)] {
                devs.push(dev(format!("v{}.ascii_case_insensitive{}", i, if an == "bare" { "" } else { an }), &[&format!("aci{}", i)], move |s| {
                    if i >= s.variants.len() {
                        return false;
                    }
                    s.variants[i].aci = Some(a);
                    true
                }));
            }
        }
    }
    if c.kinds && n >= 2 {
        // variants named like the associated types of the generated impls (`Self::Err` / `Self::Error` would be ambiguous)
        devs.push(dev("v0.ident=Err + v1.ident=Error (names of the impls' associated types)", &["ident0", "ident1", "ctx"], |s| {
            if s.variants.len() < 2 {
                return false;
            }
            s.variants[0].ident = "Err".into();
            s.variants[1].ident = "Error".into();
            true
        }));
    }
    if c.aci && n >= 2 {
        // non-letters that differ only in bit 0x20 (`^`/`~`, `@`/`` ` ``, `[`/`{{`) are NOT case twins: a case-insensitive variant
        // spelled with one set, a later variant spelled with the other
        devs.push(dev("v0.serialize=\"^@_\"+ascii_case_insensitive + v1.serialize=\"~`\u{7f}\"", &["serA0", "aci0", "serA1"], |s| {
            if s.variants.len() < 2 {
                return false;
            }
            s.variants[0].serialize.insert(0, "^@_".into());
            s.variants[0].aci = Some(Aci::Bare);
            s.variants[1].serialize.insert(0, "~`\u{7f}".into());
            true
        }));
    }
    for st in &c.styles {
        let st2 = st.to_string();
        devs.push(dev(format!("serialize_all={:?}", st), &["style"], move |s| {
            s.serialize_all = Some(st2.clone());
            true
        }));
    }
    // the enum-level prefix belongs to the PRINTED name only; the parser accepts the bare spellings
    devs.push(dev("prefix=\"p/\" (printing only)", &["prefix"], |s| {
        s.prefix = Some("p/".into());
        true
    }));
    // a spelling with a double quote and a backslash (must be emitted escaped, never re-lexed)
    for i in 0..n.min(2) {
        devs.push(dev(format!("v{}.serialize=\"q\\\"b\\\\n\"", i), &[&format!("serA{}", i)], move |s| {
            if i >= s.variants.len() {
                return false;
            }
            s.variants[i].serialize.insert(0, "q\"b\\n".into());
            true
        }));
    }
    // doubled braces in a to_string / serialize literal are text for the parser (it accepts the literal as written)
    for i in 0..n.min(2) {
        devs.push(dev(format!("v{}.to_string=\"{{{{n}}}}\"", i), &[&format!("tos{}", i)], move |s| {
            if i >= s.variants.len() {
                return false;
            }
            s.variants[i].to_string = Some("{{n}}".into());
            true
        }));
    }
    if c.enum_aci {
        devs.push(dev("enum.ascii_case_insensitive", &["eaci"], |s| {
            s.aci = true;
            true
        }));
    }
    if c.generics {
        devs.push(dev("generic<T: Default>", &["gen", "kind0"], |s| {
            if s.variants.is_empty() || s.variants[0].default {
                return false;
            }
            s.generics = vec![Generic::Type { name: "T".into(), bounds: "Default".into() }];
            s.variants[0].kind = Kind::Tuple(vec![FieldTy::T]);
            true
        }));
        devs.push(dev("generic<const N: usize>", &["gen", "kind0"], |s| {
            if s.variants.is_empty() || s.variants[0].default {
                return false;
            }
            s.generics = vec![Generic::Const { name: "N".into() }];
            s.variants[0].kind = Kind::Tuple(vec![FieldTy::Raw("core::marker::PhantomData<[u8; N]>".into(), "PhantomData<[u8; 3]>".into())]);
            true
        }));
        devs.push(dev("generic<'a>", &["gen", "kind0"], |s| {
            if s.variants.is_empty() || s.variants[0].default {
                return false;
            }
            s.generics = vec![Generic::Lifetime { name: "a".into() }];
            s.variants[0].kind = Kind::Tuple(vec![FieldTy::LStr]);
            true
        }));
    }
    if c.generics {
        devs.extend(crate::devs::rich_generic_devs(true));
    }
    if c.resize {
        devs.push(dev("N-1", &["size"], |s| {
            if s.variants.is_empty() {
                return false;
            }
            s.variants.pop();
            true
        }));
        devs.push(dev("N+1", &["size"], |s| {
            let n = s.variants.len();
            s.variants.push(VariantSpec::unit(BASE_IDENTS[n % 8]));
            true
        }));
    }
    // layout deviations come last so that they see the attributes added by the others
    if c.layouts {
        for i in 0..n {
            for (ln, l) in [("split", Layout::Split), ("reversed", Layout::Reversed)] {
                devs.push(dev(format!("v{}.layout={}", i, ln), &[&format!("layout{}", i)], move |s| {
                    if i >= s.variants.len() {
                        return false;
                    }
                    let v = &s.variants[i];
                    let items = v.serialize.len()
                        + v.to_string.is_some() as usize
                        + v.disabled as usize
                        + v.default as usize
                        + v.default_with as usize
                        + v.aci.is_some() as usize;
                    if items < 2 {
                        return false;
                    }
                    s.variants[i].layout = l;
                    true
                }));
            }
        }
    }
    devs.extend(crate::devs::context_devs());
    devs.extend(crate::devs::rebound_prelude_devs());
    if c.kinds {
        devs.extend(crate::devs::rare_shape_devs(n, false));
    }
    devs.extend(crate::devs::syntax_devs(true, false, true, false));
    devs
}

/// documented domain of EnumString shared by the family
pub fn parse_domain(s: &EnumSpec) -> bool {
    parse_domain_overlap_ok(s) && !refsem::any_overlap(s)
}

/// the documented domain WITHOUT the "spellings do not overlap" restriction. Programs admitted only by this
/// predicate are explored on *unambiguous* inputs only (inputs matched by exactly one enabled non-default
/// variant, or by none), and a compile error in such a program is not a violation (see pipeline).
pub fn parse_domain_overlap_ok(s: &EnumSpec) -> bool {
    if s.variants.iter().filter(|v| v.default && !v.disabled).count() > 1 {
        return false;
    }
    for v in &s.variants {
        // `default` needs exactly one field; default_with on the variant needs a tuple1
        if v.default && v.kind.nfields() != 1 {
            return false;
        }
        if v.default && v.default_with {
            return false;
        }
    }
    true
}

/// aux tag for programs whose spellings overlap
pub fn overlap_aux(s: &EnumSpec) -> serde_json::Value {
    if refsem::any_overlap(s) {
        json!({"overlap": true})
    } else {
        json!(null)
    }
}

/// glue: enum + helpers + vidx + the two parse closures
pub fn render_parse_module(spec: &EnumSpec, derives: &[&str], explore_call: &str) -> String {
    let mut o = String::new();
    o.push_str(&render_enum(spec, derives));
    o.push_str(&format!("type EC = {}{};\n", spec.name, spec.generics_inst()));
    o.push_str(&render_dw_helpers(spec, "u8"));
    o.push_str(&render_vidx(spec, "EC", "vidx"));
    o.push_str(
        r#"fn obs<X: core::fmt::Debug>(r: Result<Result<EC, X>, String>) -> vf_core::Obs {
    match r {
        Ok(Ok(v)) => vf_core::Obs::Ok(vidx(&v), format!("{:?}", v)),
        Ok(Err(e)) => vf_core::Obs::Err(format!("{:?}", e)),
        Err(m) => vf_core::Obs::Panic(m),
    }
}
pub fn run(ctx: &mut vf_core::Ctx) {
    let mut from_str = |s: &str| obs(vf_core::guard(|| <EC as core::str::FromStr>::from_str(s)));
    let mut try_from = |s: &str| obs(vf_core::guard(|| <EC as core::convert::TryFrom<&str>>::try_from(s)));
"#,
    );
    o.push_str("    ");
    o.push_str(explore_call);
    o.push_str("\n}\n");
    o
}

/// all spellings of all variants (including disabled and default ones)
pub fn all_spellings(spec: &EnumSpec) -> Vec<String> {
    let mut w = Vec::new();
    for v in &spec.variants {
        for s in refsem::spellings(spec, v) {
            if !w.contains(&s) {
                w.push(s);
            }
        }
    }
    w
}

/// identifiers raw and re-cased (the "un-cased identifier when an explicit spelling exists")
pub fn ident_forms(spec: &EnumSpec) -> Vec<String> {
    let mut w = Vec::new();
    for v in &spec.variants {
        let mut push = |s: String| {
            if !w.contains(&s) {
                w.push(s)
            }
        };
        push(v.ident.clone());
        push(crate::spec::unraw(&v.ident).to_string());
        for st in [
            refsem::Style::Snake,
            refsem::Style::Kebab,
            refsem::Style::Lower,
            refsem::Style::Upper,
            refsem::Style::Pascal,
            refsem::Style::Mixed,
            refsem::Style::ScreamingSnake,
            refsem::Style::ScreamingKebab,
            refsem::Style::Title,
            refsem::Style::Train,
        ] {
            push(refsem::recase(&v.ident, st));
        }
    }
    w
}

pub fn input_cfg(ctx: &Ctx) -> InputCfg {
    if ctx.thorough() {
        InputCfg::thorough()
    } else {
        InputCfg::quick()
    }
}

pub fn expected_obs(p: &Parsed, err_text: &dyn Fn() -> String) -> Obs {
    match p {
        Parsed::Ok(i, d) => Obs::Ok(*i, d.clone()),
        Parsed::Err => Obs::Err(err_text()),
    }
}

/// The parse exploration shared by C01/C12/C16/C18: every input through `from_str` and
/// `try_from`, compared with R-parse.
pub fn explore_parse(
    ctx: &mut Ctx,
    kind_prefix: &str,
    inputs: &[String],
    from_str: &mut dyn FnMut(&str) -> Obs,
    try_from: &mut dyn FnMut(&str) -> Obs,
    err_text: &dyn Fn(&str) -> String,
) {
    let spec = ctx.spec().clone();
    let spellings = all_spellings(&spec);
    let mut seen_variant = vec![false; spec.variants.len()];
    let (mut n_ok, mut n_rej) = (0u64, 0u64);
    let overlapping = ctx.program.aux["overlap"] == true;
    if overlapping {
        ctx.outcome("overlapping-program-unambiguous-inputs");
    }
    for s in inputs {
        if overlapping {
            let n = refsem::parse_candidates(&spec).filter(|(_, v)| refsem::matches(&spec, v, s)).count();
            if n > 1 {
                ctx.count("ambiguous_inputs_skipped", 1);
                continue;
            }
        }
        ctx.state();
        let want_p = refsem::parse(&spec, s);
        let want = expected_obs(&want_p, &|| err_text(s));
        let a = from_str(s);
        let b = try_from(s);
        ctx.transitions(2);
        let w = want.show();
        let ok1 = ctx.expect_eq(&format!("{}from_str", kind_prefix), &format!("{:?}", s), &w, &a.show());
        let ok2 = ctx.expect_eq(&format!("{}try_from", kind_prefix), &format!("{:?}", s), &w, &b.show());
        match &want_p {
            Parsed::Ok(i, _) => {
                seen_variant[*i] = true;
                n_ok += 1;
                if spec.variants[*i].default {
                    ctx.outcome("default-capture");
                } else {
                    ctx.outcome("accept");
                    if !spellings.contains(s) {
                        ctx.outcome("accept-case-folded");
                    }
                }
                if ok1 && ok2 {
                    ctx.nontrivial(s);
                }
            }
            Parsed::Err => {
                n_rej += 1;
                ctx.outcome("reject");
                // near miss: equal to a spelling after full Unicode lower-casing, or a disabled spelling
                let near = spellings.iter().any(|w| w.to_lowercase() == s.to_lowercase());
                if near {
                    ctx.outcome("reject-near-miss");
                    if ok1 && ok2 {
                        ctx.nontrivial(s);
                    }
                }
            }
        }
        if ctx.want_sample() && ctx.program.idx % 97 == 0 && matches!(want_p, Parsed::Ok(..)) {
            ctx.sample(json!({"program": ctx.program.label, "enum": render_enum(&spec, &["strum::EnumString"]),
                "input": s, "expected": w, "observed_from_str": a.show(), "observed_try_from": b.show()}));
        }
    }
    // vacuity guards per program
    for (i, v) in spec.variants.iter().enumerate() {
        let reachable = !v.disabled && !v.default;
        if reachable && !seen_variant[i] && !overlapping {
            ctx.machinery(format!("vacuity guard: variant {} ({}) was never the expected result", i, v.ident));
        }
    }
    let has_default = spec.variants.iter().any(|v| v.default && !v.disabled);
    if !has_default && n_rej == 0 {
        ctx.machinery("vacuity guard: no rejected input".into());
    }
    if spec.variants.iter().any(|v| !v.disabled) && n_ok == 0 && !overlapping {
        ctx.machinery("vacuity guard: no accepted input".into());
    }
}

pub fn family_inputs(ctx: &mut Ctx) -> Vec<String> {
    let spec = ctx.spec().clone();
    let sp = all_spellings(&spec);
    let extra = ident_forms(&spec);
    let cfg = input_cfg(ctx);
    let (inp, edges) = inputs::inputs(&sp, &extra, spec.prefix.as_deref(), &cfg);
    ctx.transitions(edges);
    inp
}

/// SCALE programs of the string family: many variants, long spellings with long common prefixes, long
/// non-ASCII spellings, multi-word identifiers (appended to the deviation-bounded program space)
pub fn scale_specs() -> Vec<(EnumSpec, String)> {
    let mut out = Vec::new();
    // S1: 40 variants, mixed attributes
    let mut s1 = EnumSpec::base(0);
    for i in 0..40usize {
        let mut v = VariantSpec::unit(&format!("Variant{}OfTheLargeEnumNumber{}", (b'A' + (i % 26) as u8) as char, i));
        if i % 5 == 1 {
            v.serialize = vec![format!("spelling-number-{:02}-of-the-large-enum", i), format!("s{}", i)];
        }
        if i % 7 == 3 {
            v.aci = Some(Aci::Bare);
        }
        if i % 11 == 5 {
            v.to_string = Some(format!("ToString{}", "x".repeat(i)));
        }
        if i == 19 {
            v.disabled = true;
        }
        if i % 13 == 6 {
            v.kind = Kind::Tuple(vec![FieldTy::U8, FieldTy::Bool, FieldTy::I32, FieldTy::OptU8, FieldTy::Arr2]);
        }
        s1.variants.push(v);
    }
    out.push((s1.clone(), "SCALE S1: 40 variants, long identifiers and spellings".to_string()));
    let mut s1s = s1.clone();
    s1s.serialize_all = Some("SCREAMING-KEBAB-CASE".into());
    out.push((s1s, "SCALE S1 under SCREAMING-KEBAB-CASE".to_string()));
    let mut s1c = s1;
    s1c.aci = true;
    s1c.serialize_all = Some("snake_case".into());
    out.push((s1c, "SCALE S1 case-insensitive under snake_case".to_string()));
    // S2: long spellings around power-of-two lengths with a long common prefix, differing only at the end
    for ci in [false, true] {
        let mut s2 = EnumSpec::base(0);
        s2.aci = ci;
        for (j, len) in [15usize, 16, 17, 31, 32, 33, 63, 64, 65, 129].iter().enumerate() {
            let mut v = VariantSpec::unit(&format!("L{}", len));
            let mut sp = "Abcdefgh".repeat(len / 8 + 1);
            sp.truncate(len - 1);
            sp.push((b'a' + j as u8) as char);
            v.serialize = vec![sp];
            s2.variants.push(v);
        }
        let mut v = VariantSpec::unit("LongNonAscii");
        v.serialize = vec![format!("{}Z", "é".repeat(20))];
        s2.variants.push(v);
        let mut v = VariantSpec::unit("SamePrefixA");
        v.serialize = vec![format!("{}a", "Abcdefgh".repeat(4))];
        s2.variants.push(v);
        out.push((s2, format!("SCALE S2: spellings of length 15..129 with a common prefix{}", if ci { ", case-insensitive" } else { "" })));
    }
    out
}
