//! C01 — EnumString returns V iff the input is one of V's spellings.

use super::strfam::*;
use super::*;
use crate::devs::enumerate;
use crate::harness::Ctx;
use crate::spec::*;
use serde_json::json;

pub fn def() -> PropDef {
    PropDef {
        id: "C01",
        mode: Mode::Run,
        programs,
        strum_features: &["derive"],
        profiles: &["dev"],
        rule: "programs: all enums reachable from the 3-variant base by <=k deviations (per variant: kind x4, serialize/second serialize/to_string \
               from a collision-forcing literal pool, disabled, default (tuple/named), default_with (tuple/named fields), ascii_case_insensitive x3, \
               attribute layout split/reversed; enum: serialize_all, ascii_case_insensitive, <T: Default>, <const N>, <'a>, N-1, N+1) whose spellings do not \
               overlap (programs with overlapping spellings are kept at k <= 2 but explored on unambiguous inputs only); plus the empty enum. inputs: Trie(L) over a per-program alphabet + all case flips, one-edit neighbours, paddings and Unicode \
               look-alikes of every spelling (disabled/default variants included) + identifiers raw and re-cased + \"\". oracle: from_str and try_from \
               both equal R-parse (variant index and Debug text of the value, or the error). non-trivial = accepted input, or rejected input that equals a \
               spelling after Unicode lower-casing; distinct per (program, input)",
        trusted_base: &["rustc", "derived Debug", "generated vidx() match", "vf-core R-parse / R-case / R-match"],
        assumptions: &["type parameters instantiated with u8, lifetimes with 'static", "payload comparison through Debug text"],
        required_outcomes: &["accept", "reject", "accept-case-folded", "default-capture", "reject-near-miss"],
    }
}

pub fn cfg(tier: Tier, level3: bool) -> AlphaCfg {
    match (tier, level3) {
        (Tier::Quick, _) => AlphaCfg {
            pool: pool_small(),
            pool_b: vec!["xy", "x"],
            kinds: true,
            disabled: true,
            default: true,
            default_with: true,
            aci: true,
            layouts: true,
            styles: vec!["snake_case", "SCREAMING-KEBAB-CASE", "lowercase", "title_case"],
            enum_aci: true,
            generics: true,
            resize: true,
        },
        (Tier::Thorough, false) => AlphaCfg {
            pool: pool_full(),
            pool_b: vec!["xy", "x", "XY", "é", ""],
            kinds: true,
            disabled: true,
            default: true,
            default_with: true,
            aci: true,
            layouts: true,
            styles: vec!["snake_case", "SCREAMING-KEBAB-CASE", "lowercase", "title_case", "camelCase", "UPPERCASE"],
            enum_aci: true,
            generics: true,
            resize: true,
        },
        (Tier::Thorough, true) => AlphaCfg {
            pool: vec!["x", "XY", "é"],
            pool_b: vec!["xy"],
            kinds: false,
            disabled: true,
            default: true,
            default_with: false,
            aci: true,
            layouts: false,
            styles: vec!["snake_case", "lowercase"],
            enum_aci: true,
            generics: false,
            resize: false,
        },
    }
}

pub fn programs(tier: Tier) -> ProgramSet {
    let mut out = Vec::new();
    let mut excluded = 0u64;
    let derives = ["Debug", "PartialEq", "strum::EnumString"];
    let call = "vf_core::props::c01::explore(ctx, &mut from_str, &mut try_from);";
    let mut seen = std::collections::HashSet::new();
    let mut push = |e: crate::devs::Enumerated, out: &mut Vec<Program>| {
        if seen.insert(e.spec.clone()) {
            let source = render_parse_module(&e.spec, &derives, call);
            let aux = overlap_aux(&e.spec);
            out.push(Program { idx: 0, label: e.label, k: e.k, spec: e.spec, aux, source });
        }
    };
    // the empty enum
    push(crate::devs::Enumerated { spec: EnumSpec::base(0), label: "B0".into(), k: 0 }, &mut out);
    let base = EnumSpec::base(3);
    // overlapping programs are admitted in the k <= 2 level and explored on unambiguous inputs only
    let (specs, ex) = enumerate(&base, "B3", &alphabet(3, &cfg(tier, false)), 2, &parse_domain_overlap_ok);
    excluded += ex as u64;
    for e in specs {
        push(e, &mut out);
    }
    {
        let (specs, ex) = enumerate(&EnumSpec::base(1), "B1", &alphabet(1, &cfg(Tier::Quick, false)), 2, &parse_domain);
        excluded += ex as u64;
        for e in specs {
            push(e, &mut out);
        }
    }
    if tier == Tier::Thorough {
        let (specs, ex) = enumerate(&base, "B3", &alphabet(3, &cfg(tier, true)), 3, &parse_domain);
        excluded += ex as u64;
        for e in specs {
            push(e, &mut out);
        }
        for n in [2usize, 4] {
            let (specs, ex) = enumerate(&EnumSpec::base(n), &format!("B{}", n), &alphabet(n, &cfg(Tier::Quick, false)), 2, &parse_domain);
            excluded += ex as u64;
            for e in specs {
                push(e, &mut out);
            }
        }
    }
    // `transparent` only changes what Display / AsRefStr print: EnumString has to go on parsing such a variant by its
    // own spellings (identifier under serialize_all, or its literals), also next to a default catch-all (seed C01-w)
    for (kn, kind) in [("unit", crate::spec::Kind::Unit), ("tuple1", crate::spec::Kind::Tuple(vec![crate::spec::FieldTy::U8]))] {
        for shape in 0..4usize {
            let mut spec = EnumSpec::base(3);
            spec.variants[1].kind = kind.clone();
            spec.variants[1].transparent = true;
            let what = match shape {
                0 => "",
                1 => {
                    spec.variants[1].serialize = vec!["tr".into(), "Tr2".into()];
                    " + v1.serialize=[tr,Tr2]"
                }
                2 => {
                    spec.serialize_all = Some("snake_case".into());
                    spec.variants[1].to_string = Some("shown".into());
                    " + serialize_all=snake_case + v1.to_string=shown"
                }
                _ => {
                    spec.variants[2].kind = crate::spec::Kind::Tuple(vec![crate::spec::FieldTy::Str]);
                    spec.variants[2].default = true;
                    " + v2.default"
                }
            };
            if parse_domain(&spec) {
                push(crate::devs::Enumerated { spec, label: format!("B3 + v1.kind={} + v1.transparent{}", kn, what), k: 2 }, &mut out);
            }
        }
    }
    for (spec, label) in scale_specs() {
        push(crate::devs::Enumerated { spec, label, k: 1 }, &mut out);
    }
    let mut ex = std::collections::BTreeMap::new();
    ex.insert("overlapping spellings / more than one default / default on a variant without exactly one field".to_string(), excluded);
    ProgramSet {
        programs: finish(out),
        excluded: ex,
        bounds: json!({"N": if tier == Tier::Quick { json!([0, 3]) } else { json!([0, 2, 3, 4]) }, "k_max": if tier == Tier::Quick { 2 } else { 3 },
            "literal_pool": if tier == Tier::Quick { pool_small() } else { pool_full() },
            "trie_len": if tier == Tier::Quick { 3 } else { 4 }, "case_flips": "all 2^k (k<=10 quick / 12 thorough)"}),
    }
}

pub fn explore(ctx: &mut Ctx, from_str: &mut dyn FnMut(&str) -> crate::Obs, try_from: &mut dyn FnMut(&str) -> crate::Obs) {
    let inp = family_inputs(ctx);
    explore_parse(ctx, "", &inp, from_str, try_from, &|_| "VariantNotFound".to_string());
}
