//! C20 — unsupported input gets a compile error, never a macro panic or silent acceptance.
//! Program-space enumeration of malformed derive inputs; the observation is rustc's diagnostics.

use super::*;
use serde::{Deserialize, Serialize};
use serde_json::json;

pub fn def() -> PropDef {
    PropDef {
        id: "C20",
        mode: Mode::Custom,
        programs: |_| ProgramSet { programs: vec![], excluded: Default::default(), bounds: json!(null) },
        strum_features: &["derive"],
        profiles: &["dev"],
        rule: "items: every rejection rule of the statement x every derive that consumes the construct x variant kind x position of the offending \
               variant (first/middle/last) x repetition form (one attribute list / two attributes; same / different value). All items are compiled in one \
               crate (one module each); items without a diagnostic are re-compiled without the others until a pass is error free. oracle per item: >= 1 error \
               whose span lies inside the item, no `proc-macro derive panicked`, not compiled cleanly. Controls (the valid counterpart of each rule) must get no \
               diagnostic. non-trivial = every malformed item (each is a distinct (rule, derive, shape) case)",
        trusted_base: &["rustc diagnostics (JSON) and their spans", "the applicability table in vf-core/props/c20.rs (from the derive docs)"],
        assumptions: &["an error whose span is anywhere inside the item (attributes included) counts as 'reported at the offending item'"],
        required_outcomes: &[],
    }
}

#[derive(Clone, Debug, Serialize, Deserialize)]
pub struct Item {
    pub idx: usize,
    pub rule: String,
    pub derive: String,
    pub label: String,
    pub source: String,
    /// a valid counterpart that must compile without any diagnostic
    pub control: bool,
}

pub const ALL_DERIVES: [&str; 17] = [
    "EnumString", "AsRefStr", "VariantNames", "VariantArray", "AsStaticStr", "IntoStaticStr", "ToString", "Display", "EnumIter",
    "EnumIs", "EnumTryAs", "EnumTable", "FromRepr", "EnumMessage", "EnumProperty", "EnumDiscriminants", "EnumCount",
];

fn en(derive: &str, enum_attrs: &str, generics: &str, variants: &[String]) -> String {
    let extra = if derive == "EnumString" && enum_attrs.contains("use_phf") { ", Clone" } else { "" };
    format!("#[derive(strum::{}{})]\n{}pub enum E{} {{\n{}}}\n", derive, extra, enum_attrs, generics, variants.iter().map(|v| format!("    {},\n", v)).collect::<String>())
}

/// place the offending variant among two valid unit variants
fn place(off: &str, pos: usize) -> Vec<String> {
    let mut v = vec!["V0".to_string(), "V2".to_string()];
    v.insert(pos, off.to_string());
    v
}

fn positions(thorough: bool) -> Vec<usize> {
    if thorough {
        vec![0, 1, 2]
    } else {
        vec![1]
    }
}

pub fn items(tier: Tier) -> Vec<Item> {
    let th = tier == Tier::Thorough;
    let mut out: Vec<Item> = Vec::new();
    let mut add = |rule: &str, derive: &str, label: String, source: String, control: bool| {
        out.push(Item { idx: 0, rule: rule.into(), derive: derive.into(), label, source, control });
    };

    // R1 struct / union
    for d in ALL_DERIVES {
        for (sn, shape) in [("unit struct", "pub struct S;"), ("tuple struct", "pub struct S(u8);"), ("named struct", "pub struct S { x: u8 }"), ("union", "pub union U { a: u8, b: u16 }")] {
            add("struct-or-union", d, format!("{} on a {}", d, sn), format!("#[derive(strum::{})]\n{}\n", d, shape), false);
        }
    }
    // R2 data-carrying variant for VariantArray / EnumTable
    for d in ["VariantArray", "EnumTable"] {
        for kind in ["X(u8)", "X { a: u8 }", "X(u8, u8)"] {
            for pos in [0usize, 1, 2] {
                add("data-variant", d, format!("{} with data variant {} at {}", d, kind, pos), en(d, "", "", &place(kind, pos)), false);
            }
        }
        add("data-variant", d, format!("{} control", d), en(d, "", "", &place("X", 1)), true);
    }
    // R3 lifetime parameter
    for d in ["EnumIter", "FromRepr", "EnumTable"] {
        add("lifetime", d, format!("{} on enum with lifetime", d), en(d, "", "<'a>", &["A(&'a str)".to_string(), "B".to_string()]), false);
        add("lifetime", d, format!("{} on enum with lifetime and type parameter", d), en(d, "", "<'a, T: Default>", &["A(&'a str, T)".to_string(), "B".to_string()]), false);
        add("lifetime", d, format!("{} on enum whose lifetime is only used by a disabled variant", d), en(d, "", "<'a>", &["A".to_string(), "#[strum(disabled)] B(&'a str)".to_string(), "C".to_string()]), false);
        add("lifetime", d, format!("{} on enum with a lifetime held in PhantomData of a unit-like tuple variant", d), en(d, "", "<'a>", &["A".to_string(), "#[strum(disabled)] _M(::core::marker::PhantomData<&'a ()>)".to_string()]), false);
        add("lifetime", d, format!("{} on enum with two lifetimes", d), en(d, "", "<'a, 'b>", &["A(&'a str)".to_string(), "B(&'b str)".to_string()]), false);
    }
    // R4 repeated single-use attribute — variant level
    let s_derives = ["EnumString", "AsRefStr", "IntoStaticStr", "AsStaticStr", "ToString", "Display", "VariantNames", "EnumMessage"];
    let variant_keys: Vec<(&str, Vec<&str>, &str, Vec<(&str, &str)>)> = vec![
        // key, readers, variant shape, (first, second) value pairs
        ("disabled", vec!["EnumString", "AsRefStr", "IntoStaticStr", "AsStaticStr", "ToString", "Display", "EnumIter", "EnumCount", "EnumMessage", "EnumProperty", "FromRepr", "EnumTable", "EnumIs", "EnumTryAs"], "X", vec![("disabled", "disabled")]),
        ("to_string", s_derives.to_vec(), "X", vec![("to_string = \"a\"", "to_string = \"a\""), ("to_string = \"a\"", "to_string = \"b\"")]),
        ("transparent", vec!["Display", "AsRefStr", "IntoStaticStr", "AsStaticStr"], "X(&'static str)", vec![("transparent", "transparent")]),
        ("default", vec!["EnumString", "Display", "ToString"], "X(String)", vec![("default", "default")]),
        ("default_with", vec!["EnumString"], "X(u8)", vec![("default_with = \"f\"", "default_with = \"f\""), ("default_with = \"f\"", "default_with = \"g\"")]),
        ("ascii_case_insensitive", vec!["EnumString"], "X", vec![("ascii_case_insensitive", "ascii_case_insensitive"), ("ascii_case_insensitive = true", "ascii_case_insensitive = false"), ("ascii_case_insensitive", "ascii_case_insensitive = true"), ("ascii_case_insensitive = false", "ascii_case_insensitive"), ("ascii_case_insensitive = false", "ascii_case_insensitive = false")]),
        ("message", vec!["EnumMessage"], "X", vec![("message = \"a\"", "message = \"a\""), ("message = \"a\"", "message = \"b\"")]),
        ("detailed_message", vec!["EnumMessage"], "X", vec![("detailed_message = \"a\"", "detailed_message = \"b\"")]),
    ];
    for (key, readers, shape, pairs) in &variant_keys {
        for d in readers {
            for (a, b) in pairs {
                for form in ["one-list", "two-attrs"] {
                    for pos in positions(th || *key == "disabled") {
                        let attr = if form == "one-list" { format!("#[strum({}, {})]", a, b) } else { format!("#[strum({})] #[strum({})]", a, b) };
                        let off = format!("{} {}", attr, shape);
                        add("repeated-variant-attr", d, format!("{}: repeated `{}` ({}; {} / {}) at {}", d, key, form, a, b, pos), format!("fn f() -> u8 {{ 0 }}\nfn g() -> u8 {{ 1 }}\n{}", en(d, "", "", &place(&off, pos))), false);
                    }
                }
            }
        }
    }
    // field-level default_with
    for form in ["one-list", "two-attrs"] {
        let attr = if form == "one-list" { "#[strum(default_with = \"f\", default_with = \"f\")]".to_string() } else { "#[strum(default_with = \"f\")] #[strum(default_with = \"f\")]".to_string() };
        let off = format!("X {{ {} a: u8 }}", attr);
        add("repeated-field-attr", "EnumString", format!("EnumString: repeated field-level default_with ({})", form), format!("fn f() -> u8 {{ 0 }}\n{}", en("EnumString", "", "", &place(&off, 1))), false);
    }
    add("repeated-field-attr", "EnumString", "control: field-level default_with once".into(), format!("fn f() -> u8 {{ 0 }}\n{}", en("EnumString", "", "", &place("X { #[strum(default_with = \"f\")] a: u8 }", 1))), true);
    // R4 enum level
    let enum_keys: Vec<(&str, Vec<&str>, Vec<(&str, &str)>)> = vec![
        ("serialize_all", s_derives.to_vec(), vec![("serialize_all = \"snake_case\"", "serialize_all = \"snake_case\""), ("serialize_all = \"snake_case\"", "serialize_all = \"UPPERCASE\"")]),
        ("ascii_case_insensitive", vec!["EnumString"], vec![("ascii_case_insensitive", "ascii_case_insensitive")]),
        ("use_phf", vec!["EnumString"], vec![("use_phf", "use_phf")]),
        ("crate", vec!["EnumString", "EnumIter", "EnumCount", "EnumMessage", "EnumProperty", "VariantNames", "VariantArray", "IntoStaticStr", "AsStaticStr", "EnumDiscriminants"], vec![("crate = \"strum\"", "crate = \"strum\"")]),
        ("prefix", vec!["AsRefStr", "IntoStaticStr", "AsStaticStr", "ToString", "Display", "VariantNames"], vec![("prefix = \"p\"", "prefix = \"p\""), ("prefix = \"p\"", "prefix = \"q\"")]),
        ("parse_err_ty", vec!["EnumString"], vec![("parse_err_ty = MyErr, parse_err_fn = my_err", "parse_err_ty = MyErr")]),
        ("parse_err_fn", vec!["EnumString"], vec![("parse_err_ty = MyErr, parse_err_fn = my_err", "parse_err_fn = my_err")]),
        ("const_into_str", vec!["IntoStaticStr"], vec![("const_into_str", "const_into_str")]),
    ];
    let errdefs = "pub struct MyErr;\nfn my_err(_: &str) -> MyErr { MyErr }\n";
    for (key, readers, pairs) in &enum_keys {
        for d in readers {
            for (a, b) in pairs {
                for form in ["one-list", "two-attrs"] {
                    let attr = if form == "one-list" { format!("#[strum({}, {})]\n", a, b) } else { format!("#[strum({})]\n#[strum({})]\n", a, b) };
                    add("repeated-enum-attr", d, format!("{}: repeated enum-level `{}` ({}; {} / {})", d, key, form, a, b), format!("{}{}", errdefs, en(d, &attr, "", &place("X", 1))), false);
                }
            }
        }
    }
    for (key, vals) in [("name", ("name(A)", "name(B)")), ("name-same", ("name(A)", "name(A)")), ("vis", ("vis(pub)", "vis(pub)")), ("vis-diff", ("vis(pub)", "vis(pub(crate))"))] {
        for form in ["one-list", "two-attrs"] {
            let attr = if form == "one-list" { format!("#[strum_discriminants({}, {})]\n", vals.0, vals.1) } else { format!("#[strum_discriminants({})]\n#[strum_discriminants({})]\n", vals.0, vals.1) };
            add("repeated-discriminants-attr", "EnumDiscriminants", format!("EnumDiscriminants: repeated {} ({})", key, form), en("EnumDiscriminants", &attr, "", &place("X(u8)", 1)), false);
        }
    }
    add("repeated-discriminants-attr", "EnumDiscriminants", "control: name + vis once".into(), en("EnumDiscriminants", "#[strum_discriminants(name(A), vis(pub))]\n", "", &place("X(u8)", 1)), true);
    // R5 two default variants
    for (a, b) in [("A(String)", "B(String)"), ("A { s: String }", "B(String)"), ("A(String)", "B { s: String }")] {
        for sep in [false, true] {
            let mut vs = vec![format!("#[strum(default)] {}", a)];
            if sep {
                vs.push("V1".to_string());
            }
            vs.push(format!("#[strum(default)] {}", b));
            add("two-defaults", "EnumString", format!("EnumString: two default variants {} / {} (separated: {})", a, b, sep), en("EnumString", "", "", &vs), false);
        }
    }
    add("two-defaults", "EnumString", "EnumString: three default variants".into(), en("EnumString", "", "", &["#[strum(default)] A(String)".into(), "#[strum(default)] B(String)".into(), "#[strum(default)] C(String)".into()]), false);
    add("two-defaults", "EnumString", "control: one default variant".into(), en("EnumString", "", "", &place("#[strum(default)] X(String)", 1)), true);
    // R6 default without exactly one field
    for d in ["EnumString", "Display", "ToString"] {
        for kind in ["X", "X()", "X(String, String)", "X { a: String, b: String }", "X {}"] {
            for pos in positions(th) {
                add("default-arity", d, format!("{}: default on `{}` at {}", d, kind, pos), en(d, "", "", &place(&format!("#[strum(default)] {}", kind), pos)), false);
            }
        }
        add("default-arity", d, format!("control: {} default on tuple1", d), en(d, "", "", &place("#[strum(default)] X(String)", 1)), true);
    }
    // R7 transparent without exactly one field
    for d in ["Display", "AsRefStr", "IntoStaticStr", "AsStaticStr"] {
        for kind in ["X", "X()", "X(&'static str, &'static str)", "X { a: &'static str, b: &'static str }", "X {}"] {
            for pos in positions(th) {
                add("transparent-arity", d, format!("{}: transparent on `{}` at {}", d, kind, pos), en(d, "", "", &place(&format!("#[strum(transparent)] {}", kind), pos)), false);
            }
        }
        add("transparent-arity", d, format!("control: {} transparent on tuple1", d), en(d, "", "", &place("#[strum(transparent)] X(&'static str)", 1)), true);
    }
    // R7': transparent together with to_string is still transparent (arity rule applies)
    for d in ["Display", "AsRefStr", "IntoStaticStr"] {
        for kind in ["X", "X(u8, u8)", "X {}"] {
            add("transparent-arity", d, format!("{}: transparent + to_string on `{}`", d, kind), en(d, "", "", &place(&format!("#[strum(transparent, to_string = \"t\")] {}", kind), 1)), false);
        }
    }
    // R8 placeholders on a unit variant
    for l in ["a {x}", "{0}", "{}", "{x:>4}", "{{}} {y}", "→{0}", "日本é{x}é", "é{}", "{x}→{y}"] {
        for pos in positions(th) {
            add("unit-placeholder", "Display", format!("Display: to_string = {:?} on a unit variant at {}", l, pos), en("Display", "", "", &place(&format!("#[strum(to_string = {:?})] X", l), pos)), false);
        }
    }
    // the canonical name can also come from `serialize` (longest literal) when there is no to_string
    for attr in ["serialize = \"a {x}\"", "serialize = \"s\", serialize = \"long {0}\"", "serialize = \"{name} long\", serialize = \"s\""] {
        for pos in positions(th) {
            add("unit-placeholder", "Display", format!("Display: {} on a unit variant at {}", attr, pos), en("Display", "", "", &place(&format!("#[strum({})] X", attr), pos)), false);
        }
    }
    add("unit-placeholder", "Display", "control: multi-byte text before a placeholder on a tuple variant".into(), en("Display", "", "", &place("#[strum(to_string = \"→{0}é\")] X(u8)", 1)), true);
    add("unit-placeholder", "Display", "control: escaped braces on a unit variant".into(), en("Display", "", "", &place("#[strum(to_string = \"a {{x}}\")] X", 1)), true);
    add("unit-placeholder", "Display", "control: placeholder on a named variant".into(), en("Display", "", "", &place("#[strum(to_string = \"a {x}\")] X { x: u8 }", 1)), true);
    // R9 unknown serialize_all style
    for d in s_derives {
        for st in ["snake-case", "Snake_Case", "", "camelcase", "PASCALCASE", "kebab case", "train-case"] {
            add("unknown-style", d, format!("{}: serialize_all = {:?}", d, st), en(d, &format!("#[strum(serialize_all = {:?})]\n", st), "", &place("X", 1)), false);
        }
        add("unknown-style", d, format!("control: {} serialize_all = kebab-case", d), en(d, "#[strum(serialize_all = \"kebab-case\")]\n", "", &place("X", 1)), true);
    }
    // R10 only one of parse_err_ty / parse_err_fn
    for a in ["parse_err_ty = MyErr", "parse_err_fn = my_err"] {
        add("parse-err-pair", "EnumString", format!("EnumString: only {}", a), format!("{}{}", errdefs, en("EnumString", &format!("#[strum({})]\n", a), "", &place("X", 1))), false);
    }
    add("parse-err-pair", "EnumString", "control: both parse_err attributes".into(), format!("{}{}", errdefs, en("EnumString", "#[strum(parse_err_ty = MyErr, parse_err_fn = my_err)]\n", "", &place("X", 1))), true);
    // R11 unsupported property literal
    for l in ["1.5", "'c'", "b\"bs\"", "b'x'", "1e3", "2.0f32", "c\"cs\""] {
        for pos in positions(th) {
            add("prop-literal", "EnumProperty", format!("EnumProperty: props(k = {}) at {}", l, pos), en("EnumProperty", "", "", &place(&format!("#[strum(props(k = {}))] X", l), pos)), false);
        }
        add("prop-literal", "EnumProperty", format!("EnumProperty: props(k = 1, k = {}) (unsupported literal under an already seen key)", l), en("EnumProperty", "", "", &place(&format!("#[strum(props(k = 1, k = {}))] X", l), 1)), false);
        add("prop-literal", "EnumProperty", format!("EnumProperty: props(a = \"s\", k = {}) in a second group", l), en("EnumProperty", "", "", &place(&format!("#[strum(props(a = \"s\"))] #[strum(props(b = 1, k = {}))] X", l), 1)), false);
    }
    add("prop-literal", "EnumProperty", "control: str/int/bool props".into(), en("EnumProperty", "", "", &place("#[strum(props(a = \"s\", b = 1, c = true, d = -5))] X", 1)), true);

    // ---- rare forms of the same rules (the plain form being rejected says nothing about these) ----
    // R2': empty field lists and disabled data variants are still not unit variants
    for d in ["VariantArray", "EnumTable"] {
        for kind in ["X()", "X {}", "#[strum(disabled)] X(u8)", "#[strum(disabled)] X { a: u8 }"] {
            for pos in positions(true) {
                add("data-variant", d, format!("{} with `{}` at {}", d, kind, pos), en(d, "", "", &place(kind, pos)), false);
            }
        }
    }
    // R3': lifetime together with a where clause / after other parameters in the list
    for d in ["EnumIter", "FromRepr", "EnumTable"] {
        add("lifetime", d, format!("{} on enum with lifetime and where clause", d), format!("#[derive(strum::{})]\npub enum E<'a, T> where T: Default {{ A(&'a str, T), B }}\n", d), false);
        add("lifetime", d, format!("{} on enum with lifetime, const parameter and bound lifetime", d), format!("#[derive(strum::{})]\npub enum E<'a, 'b: 'a, const N: usize> {{ A(&'a str, &'b [u8; N]), B }}\n", d), false);
    }
    // R4': third occurrence, occurrence through cfg_attr, occurrences separated by other attributes
    for d in ["EnumString", "Display", "AsRefStr", "IntoStaticStr", "VariantNames", "EnumMessage"] {
        for (lab, attr) in [
            ("three lists, other key between", "#[strum(to_string = \"a\")] #[strum(serialize = \"z\")] #[strum(to_string = \"a\")]"),
            ("through cfg_attr", "#[cfg_attr(all(), strum(to_string = \"a\"))] #[strum(to_string = \"b\")]"),
            ("doc comment between", "#[strum(to_string = \"a\")]\n    /// doc\n    #[allow(dead_code)]\n    #[strum(to_string = \"a\")]"),
            ("one list, other keys between", "#[strum(to_string = \"a\", serialize = \"y\", serialize = \"z\", to_string = \"b\")]"),
        ] {
            add("repeated-variant-attr", d, format!("{}: repeated to_string ({})", d, lab), en(d, "", "", &place(&format!("{} X", attr), 1)), false);
        }
        for (lab, attr) in [
            ("through cfg_attr", "#[cfg_attr(all(), strum(serialize_all = \"snake_case\"))]\n#[strum(serialize_all = \"snake_case\")]\n"),
            ("three lists", "#[strum(serialize_all = \"snake_case\")]\n#[strum(prefix = \"p\")]\n#[strum(serialize_all = \"kebab-case\")]\n"),
        ] {
            add("repeated-enum-attr", d, format!("{}: repeated enum-level serialize_all ({})", d, lab), en(d, attr, "", &place("X", 1)), false);
        }
    }
    for d in ["EnumString", "EnumIter", "EnumCount", "FromRepr", "EnumIs"] {
        add("repeated-variant-attr", d, format!("{}: `disabled` three times", d), en(d, "", "", &place("#[strum(disabled)] #[strum(disabled, disabled)] X", 1)), false);
    }
    // R5': two default variants far apart, first one not the first variant, one of them disabled-looking
    add("two-defaults", "EnumString", "EnumString: two default variants, 6 variants apart, neither first".into(), en("EnumString", "", "", &["V0".into(), "#[strum(default)] A(String)".into(), "V2".into(), "V3".into(), "V4".into(), "V5".into(), "V6".into(), "#[strum(default)] B(String)".into(), "V8".into()]), false);
    add("two-defaults", "EnumString", "EnumString: two default variants, second in a cfg_attr".into(), en("EnumString", "", "", &["#[strum(default)] A(String)".into(), "V1".into(), "#[cfg_attr(all(), strum(default))] B(String)".into()]), false);
    // R6' / R7': arity with more fields, named two-field
    for d in ["EnumString", "Display"] {
        for kind in ["X(String, String, String)", "X { a: String, b: String, c: String }"] {
            add("default-arity", d, format!("{}: default on `{}`", d, kind), en(d, "", "", &place(&format!("#[strum(default)] {}", kind), 1)), false);
        }
    }
    // R8': placeholder with a spec, after escaped braces, at the very end, positional with two digits
    for l in ["{{ {0:>4}", "{{}}{x}", "x{{{x}}}", "{10}", "ok {x:?}", "{x:03} "] {
        add("unit-placeholder", "Display", format!("Display: to_string = {:?} on a unit variant (rare form)", l), en("Display", "", "", &place(&format!("#[strum(to_string = {:?})] X", l), 1)), false);
    }
    // R9': near misses of documented styles
    for d in ["EnumString", "Display", "VariantNames"] {
        for st in [" snake_case", "snake_case ", "SNAKE_CASE", "Kebab-Case", "train-Case", "Train-case", "screaming_snake_case", "MIXED_CASE", "Title_Case", "Camel_case", "pascalCase", "kebab_Case", "shouty-snake-case"] {
            add("unknown-style", d, format!("{}: serialize_all = {:?} (near miss)", d, st), en(d, &format!("#[strum(serialize_all = {:?})]\n", st), "", &place("X", 1)), false);
        }
    }
    // R10': only one of the pair on generic enums / next to other keys
    for (g, v) in [("<T: Default>", "X(T)"), ("", "X")] {
        for a in ["parse_err_ty = MyErr", "parse_err_fn = my_err"] {
            add("parse-err-pair", "EnumString", format!("EnumString{}: only {} next to other keys", g, a), format!("{}{}", errdefs, en("EnumString", &format!("#[strum(ascii_case_insensitive, {}, serialize_all = \"snake_case\")]\n", a), g, &place(v, 1))), false);
        }
    }
    // R10'': the pair check must not depend on what else the enum contains (default variant, disabled, phf, data, no variants)
    for a in ["parse_err_ty = MyErr", "parse_err_fn = my_err"] {
        for (lab, eattr, vs) in [
            ("with a default variant last", "", vec!["V0".to_string(), "#[strum(default)] D(String)".to_string()]),
            ("with a default variant first", "", vec!["#[strum(default)] D(String)".to_string(), "V1".to_string()]),
            ("with a named default variant only", "", vec!["#[strum(default)] D { s: String }".to_string()]),
            ("with only disabled variants", "", vec!["#[strum(disabled)] V0".to_string()]),
            ("with no variants", "", vec![]),
            ("with use_phf", "use_phf, ", vec!["V0".to_string(), "V1".to_string()]),
            ("with case-insensitive data variants", "ascii_case_insensitive, ", vec!["V0(u8)".to_string(), "V1 { a: bool }".to_string()]),
        ] {
            add("parse-err-pair", "EnumString", format!("EnumString: only {} {}", a, lab), format!("{}{}", errdefs, en("EnumString", &format!("#[strum({}{})]\n", eattr, a), "", &vs)), false);
        }
    }
    add("parse-err-pair", "EnumString", "control: both parse_err attributes with a default variant".into(), format!("{}{}", errdefs.replace("pub struct MyErr;", "#[derive(Debug)] pub struct MyErr;"), en("EnumString", "#[strum(parse_err_ty = MyErr, parse_err_fn = my_err)]\n", "", &["V0".to_string(), "#[strum(default)] D(String)".to_string()])), true);
    // (attributes of a DISABLED variant are ignored by every derive together with the variant — a float property, `default` on
    // two fields, placeholders on a disabled unit variant all compile; the statement's rules are about variants the derive uses,
    // so such items are not part of the domain; DESIGN.md §6, out-of-domain observations)
    // R4'': a repeated single-use attribute is an error for EVERY derive that looks at the variant / enum attributes,
    // not only for the one that uses the value (all of these are rejected on the unchanged tree)
    let all_variant_readers = ["EnumString", "AsRefStr", "VariantNames", "IntoStaticStr", "Display", "EnumIter", "EnumIs", "EnumTryAs", "EnumTable", "FromRepr", "EnumMessage", "EnumProperty", "EnumCount"];
    for d in all_variant_readers {
        for (key, a, b) in [("to_string", "to_string = \"a\"", "to_string = \"b\""), ("message", "message = \"a\"", "message = \"b\""), ("ascii_case_insensitive", "ascii_case_insensitive", "ascii_case_insensitive"), ("disabled", "disabled", "disabled")] {
            let label = format!("{}: repeated `{}` on a variant (any-reader rule)", d, key);
            add("repeated-variant-attr", d, label, en(d, "", "", &place(&format!("#[strum({}, {})] X", a, b), 1)), false);
        }
    }
    let all_enum_readers = ["EnumString", "AsRefStr", "VariantNames", "IntoStaticStr", "Display", "EnumIter", "EnumMessage", "EnumProperty", "EnumDiscriminants", "EnumCount", "VariantArray"];
    for d in all_enum_readers {
        for (key, a, b) in [("serialize_all", "serialize_all = \"snake_case\"", "serialize_all = \"kebab-case\""), ("prefix", "prefix = \"a\"", "prefix = \"b\"")] {
            add("repeated-enum-attr", d, format!("{}: repeated enum-level `{}` (any-reader rule)", d, key), en(d, &format!("#[strum({}, {})]\n", a, b), "", &place("X", 1)), false);
        }
        add("unknown-style", d, format!("{}: serialize_all = \"nope\" (any-reader rule)", d), en(d, "#[strum(serialize_all = \"nope\")]\n", "", &place("X", 1)), false);
    }
    // R12 malformed attribute VALUES: never a panic, never silently accepted (the statement's general clause)
    for (lab, src) in [
        ("crate = \"my-strum\"", "#[derive(strum::EnumString)]\n#[strum(crate = \"my-strum\")]\npub enum E { A }\n"),
        ("crate = \"\"", "#[derive(strum::EnumIter)]\n#[strum(crate = \"\")]\npub enum E { A }\n"),
        ("variant default_with = \"a b\"", "#[derive(strum::EnumString)]\npub enum E { #[strum(default_with = \"a b\")] A(u8) }\n"),
        ("variant default_with = \"\"", "#[derive(strum::EnumString)]\npub enum E { #[strum(default_with = \"\")] A(u8) }\n"),
        ("variant default_with = \"1f\"", "#[derive(strum::EnumString)]\npub enum E { #[strum(default_with = \"1f\")] A(u8) }\n"),
        ("variant default_with = \"f()\"", "fn f() -> u8 { 0 }\n#[derive(strum::EnumString)]\npub enum E { #[strum(default_with = \"f()\")] A(u8) }\n"),
        ("field default_with = \"a b\"", "#[derive(strum::EnumString)]\npub enum E { A { #[strum(default_with = \"a b\")] x: u8 } }\n"),
        ("field default_with = \"\"", "#[derive(strum::EnumString)]\npub enum E { A { #[strum(default_with = \"\")] x: u8 } }\n"),
        ("serialize = 5", "#[derive(strum::EnumString)]\npub enum E { #[strum(serialize = 5)] A }\n"),
        ("unknown key", "#[derive(strum::Display)]\npub enum E { #[strum(foo)] A }\n"),
        ("unknown enum-level key", "#[derive(strum::Display)]\n#[strum(foo = \"x\")]\npub enum E { A }\n"),
        ("unquoted serialize_all", "#[derive(strum::EnumString)]\n#[strum(serialize_all = snake_case)]\npub enum E { A }\n"),
        ("bare #[strum]", "#[derive(strum::EnumString)]\n#[strum]\npub enum E { A }\n"),
        ("#[strum = \"x\"]", "#[derive(strum::EnumString)]\n#[strum = \"x\"]\npub enum E { A }\n"),
        ("props(k)", "#[derive(strum::EnumProperty)]\npub enum E { #[strum(props(k))] A }\n"),
        ("props(5 = \"x\")", "#[derive(strum::EnumProperty)]\npub enum E { #[strum(props(5 = \"x\"))] A }\n"),
        ("parse_err_ty = 5", "fn f(_: &str) -> u8 { 0 }\n#[derive(strum::EnumString)]\n#[strum(parse_err_ty = 5, parse_err_fn = f)]\npub enum E { A }\n"),
        ("strum_discriminants(name(5))", "#[derive(strum::EnumDiscriminants)]\n#[strum_discriminants(name(5))]\npub enum E { A }\n"),
        ("strum_discriminants(vis(notavis))", "#[derive(strum::EnumDiscriminants)]\n#[strum_discriminants(vis(notavis))]\npub enum E { A }\n"),
        ("to_string = \"}\" on a unit variant", "#[derive(strum::Display)]\npub enum E { #[strum(to_string = \"}\")] A }\n"),
        ("to_string = \"{a b}\"", "#[derive(strum::Display)]\npub enum E { #[strum(to_string = \"{a b}\")] A { a: u8 } }\n"),
        ("to_string = \"{1x}\"", "#[derive(strum::Display)]\npub enum E { #[strum(to_string = \"{1x}\")] A(u8) }\n"),
    ] {
        let derive = src.split("strum::").nth(1).unwrap_or("").split(')').next().unwrap_or("").to_string();
        add("malformed-value", &derive, format!("{}: {}", derive, lab), src.to_string(), false);
    }
    add("malformed-value", "EnumString", "control: default_with names a function".into(), "fn f() -> u8 { 0 }\n#[derive(strum::EnumString)]\npub enum E { #[strum(default_with = \"f\")] A(u8), B { #[strum(default_with = \"f\")] x: u8 } }\n".into(), true);
    // R11': unsupported literal not first / in the third group / negative float
    for l in ["1.5", "'c'", "b\"bs\"", "-2.5"] {
        add("prop-literal", "EnumProperty", format!("EnumProperty: props(a = 1, b = true, k = {}) last of three", l), en("EnumProperty", "", "", &place(&format!("#[strum(props(a = 1, b = true, k = {}))] X", l), 1)), false);
        add("prop-literal", "EnumProperty", format!("EnumProperty: k = {} on the last variant of 9", l), en("EnumProperty", "", "", &(0..9).map(|i| if i == 8 { format!("#[strum(props(k = {}))] V8", l) } else { format!("#[strum(props(a = \"s\"))] V{}", i) }).collect::<Vec<_>>()), false);
    }
    for (i, it) in out.iter_mut().enumerate() {
        it.idx = i;
    }
    out
}
