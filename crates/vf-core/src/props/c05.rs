//! C05 — the derived iterator obeys the double-ended / exact-size / fused contract.
//! History-space search (H) with stateright: explicit-state BFS to fixpoint over
//! (real iterator, reference range) pairs, the real object rebuilt by replaying the history.

use super::*;
use crate::harness::{guard, Ctx};
use crate::refsem;
use crate::spec::*;
use serde_json::json;
use stateright::{Checker, Model, Property};
use std::collections::BTreeSet;
use std::hash::{Hash, Hasher};
use std::ops::Range;
use std::sync::{Arc, Mutex};

pub fn def() -> PropDef {
    PropDef {
        id: "C05",
        mode: Mode::Run,
        programs,
        strum_features: &["derive"],
        profiles: &["dev", "release"],
        rule: "per enum: stateright BFS to fixpoint over states = (raw bytes of every live real iterator, reference Range cursors); \
               actions = next, next_back, nth(n), nth_back(n) for n in {0..N+2, 2^16, 2^32, 2^63-1, 2^63, usize::MAX-N-2..usize::MAX} on \
               each live iterator and clone (<= 2 live iterators). Every transition replays the history on fresh real iterators, \
               compares the returned item, len() and size_hint() with the reference and, in every new state, drains clones \
               forwards/backwards, through skip(j)/step_by(j) and through count()/last()/fold()/rfold(). A state is non-trivial when at least one item has been consumed \
               or a second iterator is live; distinct = distinct (program, profile, state key)",
        trusted_base: &["rustc", "core::ops::Range<usize> as the reference double-ended iterator", "generated vidx() match", "stateright 0.31 BFS"],
        assumptions: &[
            "state identity = the 16 raw bytes of the iterator struct (two usize cursors + ZST marker), guarded by size_of; equal bytes imply equal futures because the iterator is plain data",
            "n ranges over representatives of usize, not all 2^64 values",
        ],
        required_outcomes: &["exhausted-front", "exhausted-back", "overrun-nth", "overrun-nth_back", "two-live", "item"],
    }
}

pub fn programs(tier: Tier) -> ProgramSet {
    let nmax = match tier {
        Tier::Quick => 5usize,
        Tier::Thorough => 8usize,
    };
    let mut out = Vec::new();
    let mut add = |label: String, spec: EnumSpec| {
        let source = render(&spec);
        out.push(Program { idx: 0, label, k: 0, spec, aux: json!(null), source });
    };
    for n in 0..=nmax {
        add(format!("N={} unit", n), EnumSpec::base(n));
        if n == 0 {
            // an enum whose only variant is disabled
            let mut s = EnumSpec::base(1);
            s.variants[0].disabled = true;
            add("N=0 one disabled variant".into(), s);
            continue;
        }
        for (pos, name) in [(0usize, "first"), (n / 2, "middle"), (n, "last")] {
            if name == "middle" && (n < 2) {
                continue;
            }
            let mut s = EnumSpec::base(n);
            let mut d = VariantSpec::unit("Zz");
            d.disabled = true;
            s.variants.insert(pos, d);
            add(format!("N={} + disabled variant {}", n, name), s);
        }
        let mut s = EnumSpec::base(n);
        s.variants[0].kind = Kind::Tuple(vec![FieldTy::U8]);
        let l = n - 1;
        if l > 0 {
            s.variants[l].kind = Kind::Named(vec![NamedField { name: "x".into(), ty: FieldTy::Str, default_with: false }]);
        }
        add(format!("N={} data variants", n), s);
        let mut s = EnumSpec::base(n);
        s.generics = vec![Generic::Type { name: "T".into(), bounds: "Default".into() }];
        s.variants[0].kind = Kind::Tuple(vec![FieldTy::T]);
        add(format!("N={} generic<T: Default>", n), s);
        // the shared generic / payload / declaration-context shapes (one program each, N = 3 only)
        if n == 3 {
            for d in crate::devs::rich_generic_devs(false).into_iter().chain(crate::devs::context_devs()) {
                let mut s = EnumSpec::base(n);
                if (d.apply)(&mut s) {
                    add(format!("N={} + {}", n, d.label), s);
                }
            }
        }
    }
    // rare shapes and surface syntax around a DISABLED variant (other keys before / after `disabled` in one list, trailing commas,
    // cfg_attr, foreign attributes, raw identifiers, empty field lists), N = 3 + one disabled variant in the middle
    {
        let mut base = EnumSpec::base(3);
        let mut d = VariantSpec::unit("Zz");
        d.disabled = true;
        base.variants.insert(1, d);
        {
            // the disabled variant carries a payload without Default (never constructed)
            let mut s = base.clone();
            s.variants[1].kind = Kind::Tuple(vec![FieldTy::Nd, FieldTy::Raw("&'static vf_core::Nd".into(), "-".into())]);
            let source = render(&s);
            out.push(Program { idx: 0, label: "N=3 + disabled variant middle with a payload that has no Default".into(), k: 1, spec: s, aux: json!(null), source });
        }
        for d in crate::devs::rare_shape_devs(4, false).into_iter().chain(crate::devs::syntax_devs(true, false, true, false)) {
            let mut s = base.clone();
            if (d.apply)(&mut s) && s != base {
                let label = format!("N=3 + disabled variant middle + {}", d.label);
                let source = render(&s);
                out.push(Program { idx: 0, label, k: 1, spec: s, aux: json!(null), source });
            }
        }
    }
    // SCALE: larger enums (cursor pairs up to (N+1)(N+2)/2 states per live iterator)
    let scale: &[usize] = if tier == Tier::Quick { &[9, 17, 256] } else { &[9, 17, 33, 65, 255, 256, 257] };
    for &n in scale {
        let mut spec = EnumSpec::base(0);
        for i in 0..n {
            spec.variants.push(VariantSpec::unit(&format!("V{}", i)));
        }
        let mut d = VariantSpec::unit("Zz");
        d.disabled = true;
        spec.variants.insert(n / 2, d);
        let source = render(&spec);
        out.push(Program { idx: 0, label: format!("SCALE N={} + disabled variant middle", n), k: 0, spec, aux: json!(null), source });
    }
    ProgramSet {
        programs: finish(out),
        excluded: Default::default(),
        bounds: json!({"N_max": nmax, "scale_N": if tier == Tier::Quick { json!([9, 17, 256]) } else { json!([9, 17, 33, 65, 255, 256, 257]) }, "live_iterators_max": 2, "two_live_up_to_N": two_live_limit(tier),
            "n_values": "0..N+2, 2^16, 2^32, 2^63-1, 2^63, usize::MAX-N-2..=usize::MAX",
            "adaptor_j": "1,2,N,N+1,usize::MAX", "search": "BFS to fixpoint (all reachable states)"}),
    }
}

fn two_live_limit(tier: Tier) -> usize {
    match tier {
        Tier::Quick => 3,
        Tier::Thorough => 6,
    }
}

pub fn render(spec: &EnumSpec) -> String {
    let mut o = String::new();
    o.push_str(&render_enum(spec, &["Debug", "strum::EnumIter"]));
    o.push_str(&format!("type EC = {}{};\n", spec.name, spec.generics_inst()));
    o.push_str(&render_vidx(spec, "EC", "vidx"));
    // Send + Sync regardless of the type parameters: instantiate them with a Copy + Default type that is neither
    let rc = if spec.generics.is_empty() { "EC".to_string() } else { format!("{}{}", spec.name, spec.generics_inst_with("vf_core::NotSend")) };
    o.push_str(&format!(
        r#"fn _assert_send_sync<X: Send + Sync>() {{}}
fn _assert_bounds<X: Iterator + Clone + DoubleEndedIterator + ExactSizeIterator + core::iter::FusedIterator>() {{}}
fn _generic_user<E: strum::IntoEnumIterator>() -> usize {{
    let mut it = E::iter();
    let _ = it.next_back();
    let _ = it.nth_back(0);
    let n = it.len();
    let c = it.clone();
    n + c.rev().count()
}}
fn _compile_time() {{
    let _ = _generic_user::<EC>;
    _assert_send_sync::<<{rc} as strum::IntoEnumIterator>::Iterator>();
    _assert_bounds::<<{rc} as strum::IntoEnumIterator>::Iterator>();
}}
fn mk() -> Box<dyn vf_core::props::c05::DynIter> {{
    Box::new(vf_core::props::c05::IterBox::new(<EC as strum::IntoEnumIterator>::iter(), vidx as fn(&EC) -> usize))
}}
pub fn run(ctx: &mut vf_core::Ctx) {{
    vf_core::props::c05::explore(ctx, mk);
}}
"#,
        rc = rc
    ));
    o
}

// ------------------------------------------------------------------------------------------------
// dynamic wrapper around the real iterator
// ------------------------------------------------------------------------------------------------

pub trait DynIter {
    fn next(&mut self) -> Option<usize>;
    fn next_back(&mut self) -> Option<usize>;
    fn nth(&mut self, n: usize) -> Option<usize>;
    fn nth_back(&mut self, n: usize) -> Option<usize>;
    fn len(&self) -> usize;
    fn size_hint(&self) -> (usize, Option<usize>);
    fn dup(&self) -> Box<dyn DynIter>;
    fn key(&self) -> Option<Vec<u8>>;
    fn drain_fwd(&self, lim: usize) -> Vec<usize>;
    fn drain_rev(&self, lim: usize) -> Vec<usize>;
    fn skip_collect(&self, j: usize, lim: usize) -> Vec<usize>;
    fn step_by_collect(&self, j: usize, lim: usize) -> Vec<usize>;
    /// consuming std methods a derive could specialise: count(), last(), fold(), rfold()
    fn count_all(&self) -> usize;
    fn last_item(&self) -> Option<usize>;
    fn fold_items(&self) -> Vec<usize>;
    fn rfold_items(&self) -> Vec<usize>;
}

pub struct IterBox<I: Iterator> {
    it: I,
    f: fn(&I::Item) -> usize,
}

impl<I: Iterator> IterBox<I> {
    pub fn new(it: I, f: fn(&I::Item) -> usize) -> Self {
        IterBox { it, f }
    }
}

impl<I> DynIter for IterBox<I>
where
    I: Iterator + DoubleEndedIterator + ExactSizeIterator + Clone + 'static,
{
    fn next(&mut self) -> Option<usize> {
        self.it.next().map(|v| (self.f)(&v))
    }
    fn next_back(&mut self) -> Option<usize> {
        self.it.next_back().map(|v| (self.f)(&v))
    }
    fn nth(&mut self, n: usize) -> Option<usize> {
        self.it.nth(n).map(|v| (self.f)(&v))
    }
    fn nth_back(&mut self, n: usize) -> Option<usize> {
        self.it.nth_back(n).map(|v| (self.f)(&v))
    }
    fn len(&self) -> usize {
        self.it.len()
    }
    fn size_hint(&self) -> (usize, Option<usize>) {
        self.it.size_hint()
    }
    fn dup(&self) -> Box<dyn DynIter> {
        Box::new(IterBox { it: self.it.clone(), f: self.f })
    }
    fn key(&self) -> Option<Vec<u8>> {
        let sz = std::mem::size_of::<I>();
        if std::env::var_os("VF_C05_FORCE_OBSERVATIONAL_KEY").is_some() {
            return None; // self-test of the fallback path
        }
        if sz == 2 * std::mem::size_of::<usize>() && std::mem::align_of::<I>() == std::mem::align_of::<usize>() {
            let mut v = vec![0u8; sz];
            // SAFETY: I is exactly two usize wide with usize alignment (checked above), so it has
            // no padding bytes; the bytes are only hashed/compared, never turned back into an I.
            unsafe { std::ptr::copy_nonoverlapping(&self.it as *const I as *const u8, v.as_mut_ptr(), sz) };
            Some(v)
        } else {
            None
        }
    }
    fn drain_fwd(&self, lim: usize) -> Vec<usize> {
        let f = self.f;
        self.it.clone().take(lim).map(|v| f(&v)).collect()
    }
    fn drain_rev(&self, lim: usize) -> Vec<usize> {
        let f = self.f;
        self.it.clone().rev().take(lim).map(|v| f(&v)).collect()
    }
    fn skip_collect(&self, j: usize, lim: usize) -> Vec<usize> {
        let f = self.f;
        self.it.clone().skip(j).take(lim).map(|v| f(&v)).collect()
    }
    fn step_by_collect(&self, j: usize, lim: usize) -> Vec<usize> {
        let f = self.f;
        self.it.clone().step_by(j).take(lim).map(|v| f(&v)).collect()
    }
    fn count_all(&self) -> usize {
        self.it.clone().count()
    }
    fn last_item(&self) -> Option<usize> {
        self.it.clone().last().map(|v| (self.f)(&v))
    }
    fn fold_items(&self) -> Vec<usize> {
        let f = self.f;
        self.it.clone().fold(Vec::new(), |mut acc, v| {
            if acc.len() < 100_000 {
                acc.push(f(&v));
            }
            acc
        })
    }
    fn rfold_items(&self) -> Vec<usize> {
        let f = self.f;
        self.it.clone().rfold(Vec::new(), |mut acc, v| {
            if acc.len() < 100_000 {
                acc.push(f(&v));
            }
            acc
        })
    }
}

// ------------------------------------------------------------------------------------------------
// the model
// ------------------------------------------------------------------------------------------------

#[derive(Clone, Copy, Debug, PartialEq, Eq, Hash)]
pub enum Op {
    Next,
    NextBack,
    Nth(usize),
    NthBack(usize),
    Clone,
}

#[derive(Clone, Copy, Debug, PartialEq, Eq, Hash)]
pub struct Act {
    pub it: usize,
    pub op: Op,
}

fn show_hist(h: &[Act]) -> String {
    let mut s = String::from("let mut it0 = E::iter();");
    let mut live = 1;
    for a in h {
        match a.op {
            Op::Next => s.push_str(&format!(" it{}.next();", a.it)),
            Op::NextBack => s.push_str(&format!(" it{}.next_back();", a.it)),
            Op::Nth(n) => s.push_str(&format!(" it{}.nth({});", a.it, n)),
            Op::NthBack(n) => s.push_str(&format!(" it{}.nth_back({});", a.it, n)),
            Op::Clone => {
                s.push_str(&format!(" let mut it{} = it{}.clone();", live, a.it));
                live += 1;
            }
        }
    }
    s
}

#[derive(Clone, Debug)]
pub struct St {
    hist: Vec<Act>,
    /// per live iterator: raw bytes of the real object (or the history when bytes are unavailable)
    key: Vec<Vec<u8>>,
    /// reference cursors
    refs: Vec<(usize, usize)>,
    bad: bool,
}

impl Hash for St {
    fn hash<H: Hasher>(&self, h: &mut H) {
        self.key.hash(h);
        self.refs.hash(h);
        self.bad.hash(h);
    }
}
impl PartialEq for St {
    fn eq(&self, o: &Self) -> bool {
        self.key == o.key && self.refs == o.refs && self.bad == o.bad
    }
}

#[derive(Default)]
pub struct Collector {
    pub transitions: u64,
    pub real_calls: u64,
    pub violations: Vec<(String, String, String, String)>,
    pub ref_pairs: BTreeSet<(usize, usize)>,
    pub outcomes: BTreeSet<&'static str>,
    pub nontrivial_states: u64,
    pub byte_keys: bool,
}

pub struct IterModel {
    mk: fn() -> Box<dyn DynIter>,
    /// vidx of the enabled variants, in order
    items: Vec<usize>,
    ns: Vec<usize>,
    max_live: usize,
    depth_cap: Option<usize>,
    col: Arc<Mutex<Collector>>,
}

struct Live {
    real: Box<dyn DynIter>,
    r: Range<usize>,
}

impl IterModel {
    fn n(&self) -> usize {
        self.items.len()
    }

    fn exp(&self, j: Option<usize>) -> Option<usize> {
        j.map(|j| self.items[j])
    }

    /// apply one action to the live set; Err((kind, expected, observed)) on disagreement
    fn apply(&self, live: &mut Vec<Live>, a: Act, calls: &mut u64, outcomes: &mut Vec<&'static str>) -> Result<(), (String, String, String)> {
        let n = self.n();
        if let Op::Clone = a.op {
            *calls += 1;
            let d = guard(|| live[a.it].real.dup()).map_err(|m| ("clone-panic".to_string(), "no panic".to_string(), m))?;
            let r = live[a.it].r.clone();
            live.push(Live { real: d, r });
            outcomes.push("two-live");
        } else {
            let l = &mut live[a.it];
            *calls += 1;
            let (kind, got, want): (&str, Result<Option<usize>, String>, Option<usize>) = match a.op {
                Op::Next => ("next", guard(|| l.real.next()), l.r.next()),
                Op::NextBack => ("next_back", guard(|| l.real.next_back()), l.r.next_back()),
                Op::Nth(k) => ("nth", guard(|| l.real.nth(k)), l.r.nth(k)),
                Op::NthBack(k) => ("nth_back", guard(|| l.real.nth_back(k)), l.r.nth_back(k)),
                Op::Clone => unreachable!(),
            };
            let want = self.exp(want);
            match got {
                Err(m) => return Err((format!("{}-panic", kind), format!("{:?}", want), format!("PANIC({})", m))),
                Ok(g) => {
                    if g != want {
                        return Err((format!("{}-item", kind), format!("{:?}", want), format!("{:?}", g)));
                    }
                    if g.is_some() {
                        outcomes.push("item");
                    } else {
                        match a.op {
                            Op::Next => outcomes.push("exhausted-front"),
                            Op::NextBack => outcomes.push("exhausted-back"),
                            Op::Nth(k) if k > n => outcomes.push("overrun-nth"),
                            Op::NthBack(k) if k > n => outcomes.push("overrun-nth_back"),
                            _ => {}
                        }
                    }
                }
            }
        }
        // exact size after every call, for every live iterator
        for (i, l) in live.iter().enumerate() {
            *calls += 2;
            let want = l.r.len();
            let len = guard(|| l.real.len());
            let sh = guard(|| l.real.size_hint());
            if len != Ok(want) {
                return Err(("len".into(), format!("it{}.len() == {}", i, want), format!("{:?}", len)));
            }
            if sh != Ok((want, Some(want))) {
                return Err(("size_hint".into(), format!("it{}.size_hint() == ({}, Some({}))", i, want, want), format!("{:?}", sh)));
            }
        }
        Ok(())
    }

    /// checks performed in every newly reached state on clones of the live iterators
    fn drain_checks(&self, live: &[Live], calls: &mut u64) -> Result<(), (String, String, String)> {
        let n = self.n();
        let lim = n + 3;
        for (i, l) in live.iter().enumerate() {
            let want_f: Vec<usize> = l.r.clone().map(|j| self.items[j]).collect();
            let want_r: Vec<usize> = l.r.clone().rev().map(|j| self.items[j]).collect();
            *calls += 2;
            let f = guard(|| l.real.drain_fwd(lim));
            if f.as_ref() != Ok(&want_f) {
                return Err(("drain-forward".into(), format!("it{}.clone().collect() == {:?}", i, want_f), format!("{:?}", f)));
            }
            let r = guard(|| l.real.drain_rev(lim));
            if r.as_ref() != Ok(&want_r) {
                return Err(("drain-reverse".into(), format!("it{}.clone().rev().collect() == {:?}", i, want_r), format!("{:?}", r)));
            }
            *calls += 4;
            let c = guard(|| l.real.count_all());
            if c != Ok(want_f.len()) {
                return Err(("count".into(), format!("it{}.clone().count() == {}", i, want_f.len()), format!("{:?}", c)));
            }
            let la = guard(|| l.real.last_item());
            if la != Ok(want_f.last().cloned()) {
                return Err(("last".into(), format!("it{}.clone().last() == {:?}", i, want_f.last()), format!("{:?}", la)));
            }
            let fo = guard(|| l.real.fold_items());
            if fo.as_ref() != Ok(&want_f) {
                return Err(("fold".into(), format!("it{}.clone().fold(..) visits {:?}", i, want_f), format!("{:?}", fo)));
            }
            let rf = guard(|| l.real.rfold_items());
            if rf.as_ref() != Ok(&want_r) {
                return Err(("rfold".into(), format!("it{}.clone().rfold(..) visits {:?}", i, want_r), format!("{:?}", rf)));
            }
            for j in [1usize, 2, n.max(1), n + 1, usize::MAX] {
                *calls += 2;
                let want: Vec<usize> = l.r.clone().skip(j).map(|x| self.items[x]).collect();
                let got = guard(|| l.real.skip_collect(j, lim));
                if got.as_ref() != Ok(&want) {
                    return Err(("skip".into(), format!("it{}.clone().skip({}).collect() == {:?}", i, j, want), format!("{:?}", got)));
                }
                let want: Vec<usize> = l.r.clone().step_by(j).map(|x| self.items[x]).collect();
                let got = guard(|| l.real.step_by_collect(j, lim));
                if got.as_ref() != Ok(&want) {
                    return Err(("step_by".into(), format!("it{}.clone().step_by({}).collect() == {:?}", i, j, want), format!("{:?}", got)));
                }
            }
        }
        Ok(())
    }

    /// rebuild the live set by replaying a history on fresh real iterators (no checks: the
    /// history was checked when it was first explored)
    fn rebuild(&self, hist: &[Act], calls: &mut u64) -> Option<Vec<Live>> {
        let mut live = vec![Live { real: (self.mk)(), r: 0..self.n() }];
        let mut sink = Vec::new();
        for a in hist {
            if self.apply(&mut live, *a, calls, &mut sink).is_err() {
                return None;
            }
        }
        Some(live)
    }

    fn state_of(&self, hist: Vec<Act>, live: &[Live], bad: bool) -> St {
        let mut key = Vec::new();
        let mut bytes = true;
        for l in live {
            match l.real.key() {
                Some(k) => key.push(k),
                None => {
                    // the iterator is not the two-usize struct any more (refactored representation): identify the
                    // state by what is observable — the remaining items, len() and the reference cursors. Merging by
                    // observation can only lose distinctions (never raise an alarm); the search still runs to fixpoint.
                    bytes = false;
                    let obs = format!("{:?}|{:?}", guard(|| l.real.drain_fwd(self.n() + 3)), guard(|| l.real.len()));
                    key.push(obs.into_bytes());
                }
            }
        }
        if bad {
            // violating states are terminal and kept apart
            key = vec![format!("{:?}", hist).into_bytes()];
        }
        self.col.lock().unwrap().byte_keys = bytes;
        St { hist, key, refs: live.iter().map(|l| (l.r.start, l.r.end)).collect(), bad }
    }
}

impl Model for IterModel {
    type State = St;
    type Action = Act;

    fn init_states(&self) -> Vec<St> {
        let live = vec![Live { real: (self.mk)(), r: 0..self.n() }];
        let mut calls = 0;
        let mut bad = false;
        let mut outs = Vec::new();
        // the initial state obeys the size contract and drains correctly too
        let mut l2 = live;
        let r = self.apply_checks_only(&mut l2, &mut calls, &mut outs);
        if let Err((k, e, o)) = r {
            self.col.lock().unwrap().violations.push((k, show_hist(&[]), e, o));
            bad = true;
        }
        let st = self.state_of(vec![], &l2, bad);
        let mut c = self.col.lock().unwrap();
        c.real_calls += calls;
        c.ref_pairs.insert((0, 0));
        vec![st]
    }

    fn actions(&self, s: &St, out: &mut Vec<Act>) {
        if s.bad {
            return;
        }
        if let Some(d) = self.depth_cap {
            if s.hist.len() >= d {
                return;
            }
        }
        for it in 0..s.refs.len() {
            out.push(Act { it, op: Op::Next });
            out.push(Act { it, op: Op::NextBack });
            for &k in &self.ns {
                out.push(Act { it, op: Op::Nth(k) });
            }
            for &k in &self.ns {
                out.push(Act { it, op: Op::NthBack(k) });
            }
            if s.refs.len() < self.max_live {
                out.push(Act { it, op: Op::Clone });
            }
        }
    }

    fn next_state(&self, s: &St, a: Act) -> Option<St> {
        let mut calls = 0u64;
        let mut outs = Vec::new();
        let mut live = self.rebuild(&s.hist, &mut calls)?;
        let mut hist = s.hist.clone();
        hist.push(a);
        let res = self.apply(&mut live, a, &mut calls, &mut outs).and_then(|_| self.drain_checks(&live, &mut calls));
        let n = self.n();
        let mut c = self.col.lock().unwrap();
        c.transitions += 1;
        c.real_calls += calls;
        for o in outs {
            c.outcomes.insert(o);
        }
        match res {
            Ok(()) => {
                for l in &live {
                    c.ref_pairs.insert((l.r.start, n - l.r.end));
                }
                drop(c);
                Some(self.state_of(hist, &live, false))
            }
            Err((k, e, o)) => {
                if c.violations.len() < 8 {
                    c.violations.push((k, show_hist(&hist), e, o));
                }
                drop(c);
                Some(self.state_of(hist, &live, true))
            }
        }
    }

    fn properties(&self) -> Vec<Property<Self>> {
        vec![Property::<Self>::always("conforms to the reference double-ended iterator", |_, s: &St| !s.bad)]
    }
}

impl IterModel {
    fn apply_checks_only(&self, live: &mut Vec<Live>, calls: &mut u64, _outs: &mut Vec<&'static str>) -> Result<(), (String, String, String)> {
        for (i, l) in live.iter().enumerate() {
            *calls += 2;
            let want = l.r.len();
            let len = guard(|| l.real.len());
            if len != Ok(want) {
                return Err(("len".into(), format!("it{}.len() == {}", i, want), format!("{:?}", len)));
            }
            let sh = guard(|| l.real.size_hint());
            if sh != Ok((want, Some(want))) {
                return Err(("size_hint".into(), format!("({}, Some({}))", want, want), format!("{:?}", sh)));
            }
        }
        self.drain_checks(live, calls)
    }
}

pub fn n_values(n: usize) -> Vec<usize> {
    let mut v: Vec<usize> = (0..=n + 2).collect();
    v.extend([1usize << 16, 1usize << 32, (1usize << 63) - 1, 1usize << 63]);
    for d in (0..=n + 2).rev() {
        v.push(usize::MAX - d);
    }
    v
}

pub fn explore(ctx: &mut Ctx, mk: fn() -> Box<dyn DynIter>) {
    let spec = ctx.spec().clone();
    let items = refsem::enabled(&spec);
    let n = items.len();
    let limit = two_live_limit(ctx.tier);
    let col = Arc::new(Mutex::new(Collector::default()));
    let mut total_states = 0u64;
    let mut max_depth = 0usize;
    // pass 1: one live iterator, full n alphabet; pass 2: two live iterators (clone), for N up to the tier's limit
    let full = if n > 12 {
        // SCALE programs: boundary values only
        let mut v: Vec<usize> = if n > 100 && !ctx.thorough() {
            // the quick tier keeps every cursor pair reachable (nth(0), nth(1)) but jumps with fewer values
            vec![0, 1, 7, 127, n - 1, n, 1 << 32, usize::MAX]
        } else {
            vec![0, 1, 2, 7, 8, 15, 16, 31, 32, 63, 64, 127, 128, n - 1, n, n + 1, 1 << 16, 1 << 32, usize::MAX - 1, usize::MAX]
        };
        v.sort();
        v.dedup();
        v
    } else {
        n_values(n)
    };
    let mut passes = vec![(1usize, full)];
    if n <= limit {
        passes.push((2usize, n_values(n)));
    } else if n > 12 {
        // SCALE programs: one live iterator in the quick tier; clone independence with a tiny alphabet in thorough
        // (two live iterators square the state space: (N+1)(N+2)/2 cursor pairs each — kept to N <= 40: 561^2 states; N = 65 alone took 45 min)
        if ctx.thorough() && n <= 40 {
            passes.push((2usize, vec![0, n - 1, usize::MAX]));
        }
    } else {
        // clone independence for larger N with a reduced n alphabet
        passes.push((2usize, vec![0, 1, n, usize::MAX]));
    }
    for (max_live, ns) in passes {
        let model = IterModel { mk, items: items.clone(), ns, max_live, depth_cap: None, col: col.clone() };
        // probe whether byte keys are available; otherwise bound the depth (history is the state)
        // (no depth cap: with byte keys or with observational keys the reachable key set is finite)
        let checker = model.checker().threads(1).spawn_bfs().join();
        total_states += checker.unique_state_count() as u64;
        max_depth = max_depth.max(checker.max_depth());
        let found = !checker.discoveries().is_empty();
        if found {
            break;
        }
    }
    let c = col.lock().unwrap();
    ctx.states(total_states);
    ctx.transitions(c.transitions);
    ctx.rep.evaluations += c.real_calls;
    ctx.rep.traces += c.real_calls;
    ctx.count("max_depth", max_depth as u64);
    ctx.count("bfs_states", total_states);
    if !c.byte_keys {
        ctx.count("fallback_observational_state_key", 1);
    }
    for o in &c.outcomes {
        ctx.outcome(o);
    }
    for (k, h, e, o) in &c.violations {
        ctx.violation(k, h, e, o);
    }
    // non-trivial: every state beyond the initial one
    for i in 0..total_states.saturating_sub(1) {
        ctx.nontrivial(&i);
    }
    // vacuity: every reference cursor pair (front, back) with front + back <= N was reached
    if c.violations.is_empty() && c.byte_keys {
        for f in 0..=n {
            for b in 0..=(n - f) {
                if !c.ref_pairs.contains(&(f, b)) {
                    ctx.machinery(format!("vacuity guard: cursor pair (front={}, back={}) never reached", f, b));
                }
            }
        }
    }
    if ctx.want_sample() && n >= 3 {
        ctx.sample(json!({"program": ctx.program.label, "enum": render_enum(&spec, &["strum::EnumIter"]),
            "bfs_unique_states": total_states, "transitions": c.transitions, "max_depth": max_depth,
            "example_history": show_hist(&[Act{it:0,op:Op::Next}, Act{it:0,op:Op::Clone}, Act{it:1,op:Op::NthBack(usize::MAX)}, Act{it:0, op:Op::Nth(1)}])}));
    }
}
