//! C19 — generated code depends only on ::core and on the configured strum path.
//! Program-space enumeration compiled (check only) under three configurations.

use super::*;
use crate::devs::{dev, enumerate, Dev};
use crate::spec::*;
use serde_json::json;

pub fn def() -> PropDef {
    PropDef {
        id: "C19",
        mode: Mode::Custom,
        programs: |_| ProgramSet { programs: vec![], excluded: Default::default(), bounds: json!(null) },
        strum_features: &["derive"],
        profiles: &["dev"],
        rule: "programs: enums reachable from the 3-variant base by <=k deviations over variant kinds (core-only field palette), serialize / to_string / positional and named \
               placeholders, disabled, default, transparent, default_with, ascii_case_insensitive, message / detailed_message / docs / props, explicit discriminants, repr, \
               serialize_all, prefix, parse_err_*, const_into_str, generics <T>, <const N>, <'a>, strum_discriminants(derive/name/vis/pass-through); each program carries EVERY \
               non-deprecated derive it admits. configurations: (a) #![no_std] edition-2018 lib without alloc, strum default-features=false, plus ONE final artifact (a freestanding no_std / no_main binary without a global allocator that links a no_std library using the derives); (b) strum reachable only as `strum_x` / \
               `crate::re::strum_x` / `::strum_x` / a `use .. as st` alias through #[strum(crate = ..)]; (c) `mod core {}` / `mod std {}` declared next to every enum. oracle: rustc accepts the module; any diagnostic is \
               attributed to its program. non-trivial = every (program, configuration) pair with >= 1 deviation",
        trusted_base: &["rustc (type checking of the expanded code)", "the admissible-derive table in vf-core/props/c19.rs"],
        assumptions: &["check-only build (cargo check): no code generation or linking is needed to decide name resolution"],
        required_outcomes: &[],
    }
}

pub const CONFIGS: [&str; 3] = ["no_std", "renamed", "shadowed"];

fn cap() -> FieldTy {
    FieldTy::Raw("crate::Cap".into(), "Cap".into())
}

fn in_domain(s: &EnumSpec) -> bool {
    if s.variants.iter().filter(|v| v.default).count() > 1 {
        return false;
    }
    let has_data = s.variants.iter().any(|v| !v.kind.is_unit());
    let has_explicit = s.variants.iter().any(|v| v.disc.is_some());
    if has_data && has_explicit && s.repr.is_none() {
        return false;
    }
    if s.const_into_str && s.variants.iter().any(|v| v.transparent) {
        return false;
    }
    if s.use_phf && (s.variants.iter().any(|v| !v.default && !v.kind.is_unit()) || !s.generics.is_empty()) {
        return false;
    }
    for v in &s.variants {
        if (v.default || v.transparent) && v.kind.nfields() != 1 {
            return false;
        }
        if v.default && v.transparent {
            return false;
        }
        // placeholders must fit the kind
        if let Some(t) = &v.to_string {
            let t = t.replace("{{", "").replace("}}", "");
            let named = t.contains("{x");
            let pos1 = t.contains("{1}");
            let pos0 = t.contains("{0}");
            match &v.kind {
                Kind::Unit => {
                    if named || pos0 || pos1 {
                        return false;
                    }
                }
                Kind::Tuple(f) => {
                    if named || (pos1 && f.len() < 2) || (f.len() == 2 && pos0 && !pos1) {
                        return false;
                    }
                }
                Kind::Named(f) => {
                    if pos0 || pos1 || (named && !f.iter().any(|x| x.name == "x")) {
                        return false;
                    }
                }
            }
            if (named || pos0 || pos1) && (v.default || v.transparent) {
                return false;
            }
            // interpolated fields must implement Display
            let undisplayable = |f: &FieldTy| matches!(f, FieldTy::T | FieldTy::Raw(..) | FieldTy::Arr2 | FieldTy::OptU8);
            if pos0 || pos1 {
                if let Kind::Tuple(f) = &v.kind {
                    if f.iter().any(undisplayable) {
                        return false;
                    }
                }
            }
        }
    }
    !crate::refsem::any_overlap(s)
}

fn alphabet(n: usize, full: bool) -> Vec<Dev> {
    let mut d: Vec<Dev> = Vec::new();
    let kinds: Vec<(&str, Kind)> = vec![
        ("tuple1", Kind::Tuple(vec![FieldTy::U8])),
        ("tuple2", Kind::Tuple(vec![FieldTy::SStr, FieldTy::Bool])),
        ("named1", Kind::Named(vec![NamedField { name: "x".into(), ty: FieldTy::U8, default_with: false }])),
        (
            "named2",
            Kind::Named(vec![
                NamedField { name: "x".into(), ty: FieldTy::U8, default_with: false },
                NamedField { name: "y".into(), ty: FieldTy::Arr2, default_with: true },
            ]),
        ),
    ];
    for i in 0..n {
        for (kn, kd) in kinds.clone() {
            d.push(dev(format!("v{}.kind={}", i, kn), &[&format!("kind{}", i)], move |s| {
                s.variants[i].kind = kd.clone();
                true
            }));
        }
        let lits: Vec<&str> = if full { vec!["xy", "a{0}b", "{0}-{1}", "{1}{0:>3}", "v={x}", "{x:03}!", "{{x}}"] } else { vec!["xy", "a{0}b", "{0}-{1}", "v={x}"] };
        for l in lits {
            let l2 = l.to_string();
            d.push(dev(format!("v{}.to_string={:?}", i, l), &[&format!("tos{}", i)], move |s| {
                s.variants[i].to_string = Some(l2.clone());
                true
            }));
        }
        d.push(dev(format!("v{}.serialize=\"x\"", i), &[&format!("ser{}", i)], move |s| {
            s.variants[i].serialize.push("x".into());
            true
        }));
        d.push(dev(format!("v{}.disabled", i), &[&format!("dis{}", i)], move |s| {
            s.variants[i].disabled = true;
            true
        }));
        d.push(dev(format!("v{}.default(Cap)", i), &[&format!("kind{}", i), "default"], move |s| {
            s.variants[i].default = true;
            s.variants[i].kind = Kind::Tuple(vec![cap()]);
            true
        }));
        d.push(dev(format!("v{}.default(named Cap)", i), &[&format!("kind{}", i), "default"], move |s| {
            s.variants[i].default = true;
            s.variants[i].kind = Kind::Named(vec![NamedField { name: "inner".into(), ty: cap(), default_with: false }]);
            true
        }));
        d.push(dev(format!("v{}.transparent(&'static str)", i), &[&format!("kind{}", i)], move |s| {
            s.variants[i].transparent = true;
            s.variants[i].kind = Kind::Tuple(vec![FieldTy::SStr]);
            true
        }));
        d.push(dev(format!("v{}.default_with", i), &[&format!("kind{}", i)], move |s| {
            s.variants[i].default_with = true;
            s.variants[i].kind = Kind::Tuple(vec![FieldTy::U8]);
            true
        }));
        d.push(dev(format!("v{}.ascii_case_insensitive", i), &[&format!("aci{}", i)], move |s| {
            s.variants[i].aci = Some(Aci::Bare);
            true
        }));
        d.push(dev(format!("v{}.message+detailed_message+doc", i), &[&format!("msg{}", i)], move |s| {
            s.variants[i].message = Some("m".into());
            s.variants[i].detailed_message = Some("d".into());
            s.variants[i].docs = vec![(" doc one".into(), DocForm::Comment), (" two".into(), DocForm::Comment)];
            true
        }));
        d.push(dev(format!("v{}.props", i), &[&format!("props{}", i)], move |s| {
            s.variants[i].props = vec![vec![("a".into(), PropLit::S("s".into())), ("b".into(), PropLit::I(-3))], vec![("c".into(), PropLit::B(true))]];
            true
        }));
        d.push(dev(format!("v{} = {}", i, 7 + 3 * i), &[&format!("disc{}", i)], move |s| {
            s.variants[i].disc = Some(format!("{}", 7 + 3 * i));
            true
        }));
    }
    let styles: Vec<&str> = if full { vec!["snake_case", "SCREAMING-KEBAB-CASE", "camelCase", "title_case"] } else { vec!["snake_case"] };
    for st in styles {
        let st2 = st.to_string();
        d.push(dev(format!("serialize_all={:?}", st), &["style"], move |s| {
            s.serialize_all = Some(st2.clone());
            true
        }));
    }
    d.push(dev("enum.ascii_case_insensitive", &["eaci"], |s| {
        s.aci = true;
        true
    }));
    d.push(dev("prefix=\"p/\"", &["prefix"], |s| {
        s.prefix = Some("p/".into());
        true
    }));
    // the phf code path re-exports phf through the configured strum path (configurations `renamed` and `shadowed`;
    // phf itself needs std, so the program is left out of the no_std configuration)
    d.push(dev("use_phf", &["phf"], |s| {
        s.use_phf = true;
        true
    }));
    d.push(dev("parse_err_ty/fn", &["perr"], |s| {
        s.parse_err = true;
        true
    }));
    d.push(dev("const_into_str", &["cis"], |s| {
        s.const_into_str = true;
        true
    }));
    for r in ["u8", "i16"] {
        d.push(dev(format!("repr({})", r), &["repr"], move |s| {
            s.repr = Some(r.to_string());
            true
        }));
    }
    d.push(dev("generic<T: Default>", &["gen", "kind0"], |s| {
        if s.variants[0].default || s.variants[0].transparent {
            return false;
        }
        s.generics = vec![Generic::Type { name: "T".into(), bounds: "Default".into() }];
        s.variants[0].kind = Kind::Tuple(vec![FieldTy::T]);
        true
    }));
    d.push(dev("generic<const N: usize>", &["gen", "kind0"], |s| {
        if s.variants[0].default || s.variants[0].transparent {
            return false;
        }
        s.generics = vec![Generic::Const { name: "N".into() }];
        s.variants[0].kind = Kind::Tuple(vec![FieldTy::Raw("::core::marker::PhantomData<[u8; N]>".into(), "".into())]);
        true
    }));
    d.push(dev("generic<'a>", &["gen", "kind0"], |s| {
        if s.variants[0].default || s.variants[0].transparent {
            return false;
        }
        s.generics = vec![Generic::Lifetime { name: "a".into() }];
        s.variants[0].kind = Kind::Tuple(vec![FieldTy::LStr]);
        true
    }));
    d.extend(crate::devs::rich_generic_devs(true));
    d.push(dev("discriminants: name + vis(pub)", &["dname"], |s| {
        s.extra_attrs.push("#[strum_discriminants(name(Dx), vis(pub))]".into());
        true
    }));
    d.push(dev("discriminants: derive(EnumIter, Display, EnumString, Hash) + pass-through strum attrs", &["dd"], |s| {
        s.extra_attrs.push("#[strum_discriminants(derive(STRUM::EnumIter, STRUM::Display, STRUM::EnumString, STRUM::EnumCount, Hash), strum(serialize_all = \"snake_case\"CRATEATTR))]".into());
        true
    }));
    // the crate path travels in ONE strum(..) pass-through, another strum(..) pass-through follows in a second attribute
    d.push(dev("discriminants: derive(EnumIter, EnumCount) + strum(crate = ..) pass-through, then a second strum(..) pass-through", &["dd"], |s| {
        s.extra_attrs.push("#[strum_discriminants(derive(STRUM::EnumIter, STRUM::EnumCount, STRUM::Display)STRUMCRATE)]".into());
        s.extra_attrs.push("#[strum_discriminants(strum(serialize_all = \"snake_case\"))]".into());
        true
    }));
    d.push(dev("enum-level options split over two attributes: #[strum(serialize_all = ..)] #[strum(crate = ..)]", &["style", "crate2"], |s| {
        s.serialize_all = Some("snake_case".into());
        s.syntax.push("crate-attr-second".into());
        true
    }));
    d.push(dev("discriminants: variant pass-through message", &["dd"], |s| {
        s.extra_attrs.push("#[strum_discriminants(derive(STRUM::EnumMessage)STRUMCRATE)]".into());
        s.variants[0].extra_attrs.push("#[strum_discriminants(strum(message = \"dm\"))]".into());
        true
    }));
    d
}

pub struct C19Program {
    pub label: String,
    pub k: usize,
    pub spec: EnumSpec,
}

pub fn corpus(tier: Tier) -> (Vec<C19Program>, u64, serde_json::Value) {
    let (k, full) = match tier {
        Tier::Quick => (1usize, false),
        Tier::Thorough => (2usize, true),
    };
    let mut out = Vec::new();
    let mut excluded = 0u64;
    let mut base = EnumSpec::base(3);
    base.name = "En".into(); // not E/F/T/U: EnumTable's template uses those as generic parameter names
    let (specs, ex) = enumerate(&base, "B3", &alphabet(3, full), k, &in_domain);
    excluded += ex as u64;
    for e in specs {
        out.push(C19Program { label: e.label, k: e.k, spec: e.spec });
    }
    if tier == Tier::Quick {
        // a core sub-alphabet at k=2 so that pairs of the features that select templates are covered on every change
        let core: Vec<Dev> = alphabet(3, false)
            .into_iter()
            .filter(|d| {
                let l = &d.label;
                (l.starts_with("v0.") || l.starts_with("v1.kind=tuple2") || l.starts_with("v1.to_string"))
                    && !l.contains("ascii") && !l.contains("props") && !l.contains("message")
                    || l.starts_with("generic") || l.starts_with("prefix") || l.starts_with("const_into") || l.starts_with("parse_err") || l.starts_with("discriminants: derive")
            })
            .collect();
        let (specs, ex) = enumerate(&base, "B3", &core, 2, &in_domain);
        excluded += ex as u64;
        let seen: std::collections::HashSet<EnumSpec> = out.iter().map(|p| p.spec.clone()).collect();
        for e in specs {
            if !seen.contains(&e.spec) {
                out.push(C19Program { label: e.label, k: e.k, spec: e.spec });
            }
        }
    }
    // the empty enum and a one-variant enum
    for n in [1usize] {
        let mut b = EnumSpec::base(n);
        b.name = "En".into();
        out.push(C19Program { label: format!("B{}", n), k: 0, spec: b });
    }
    // SOLO: every derive alone on an enum that carries strum attributes at both levels (each derive has to register the
    // helper attributes itself; next to another strum derive a missing registration goes unnoticed)
    for d in ["EnumString", "Display", "AsRefStr", "IntoStaticStr", "VariantNames", "EnumCount", "EnumMessage", "EnumProperty", "EnumIs", "EnumTryAs", "EnumDiscriminants", "EnumIter", "FromRepr", "VariantArray", "EnumTable"] {
        let mut b = EnumSpec::base(3);
        b.name = "En".into();
        b.serialize_all = Some("snake_case".into());
        b.variants[1].disabled = true;
        b.variants[2].serialize = vec!["zz".into()];
        b.variants[0].docs = vec![(" doc".into(), DocForm::Comment)];
        b.syntax.push(format!("solo:{}", d));
        out.push(C19Program { label: format!("SOLO: only derive({}) on an enum with enum- and variant-level strum attributes", d), k: 1, spec: b });
    }
    // SCALE: 20-variant enums (code paths that depend on the number of variants), three feature mixes
    for mix in 0..3usize {
        let mut b = EnumSpec::base(0);
        b.name = "En".into();
        for i in 0..20usize {
            let mut v = VariantSpec::unit(&format!("Var{}Name", i));
            if i % 6 == 4 {
                v.disabled = true;
            }
            if i % 5 == 1 {
                v.aci = Some(Aci::Bare);
            }
            if i % 4 == 2 {
                v.message = Some(format!("m{}", i));
                v.props = vec![vec![("a".into(), PropLit::S("s".into())), ("n".into(), PropLit::I(i as i64))]];
            }
            if i % 7 == 3 {
                v.serialize = vec![format!("alt{}", i), format!("Alt-{}", i)];
            }
            if mix >= 1 {
                match i % 3 {
                    1 => v.kind = Kind::Tuple(vec![FieldTy::U8, FieldTy::Bool]),
                    2 => v.kind = Kind::Named(vec![NamedField { name: "x".into(), ty: FieldTy::I32, default_with: false }]),
                    _ => {}
                }
            }
            b.variants.push(v);
        }
        if mix == 0 {
            b.repr = Some("u8".into());
            b.variants[3].disc = Some("40".into());
            b.serialize_all = Some("kebab-case".into());
        }
        if mix == 2 {
            b.generics = vec![Generic::Type { name: "T".into(), bounds: "Default".into() }];
            b.variants[0].kind = Kind::Tuple(vec![FieldTy::T]);
            b.prefix = Some("p/".into());
        }
        if in_domain(&b) {
            out.push(C19Program { label: format!("SCALE: 20 variants, mix {}", ["unit + repr(u8) + kebab-case", "all kinds", "all kinds + generic<T: Default> + prefix"][mix]), k: 1, spec: b });
        }
    }
    (out, excluded, json!({"N": [1, 3, 20], "k_max": k, "configurations": CONFIGS, "derives": "every non-deprecated derive the enum admits"}))
}

/// the non-deprecated derives an enum admits
pub fn admissible(s: &EnumSpec) -> Vec<&'static str> {
    let mut d = vec!["EnumString", "Display", "AsRefStr", "IntoStaticStr", "VariantNames", "EnumCount", "EnumMessage", "EnumProperty", "EnumIs", "EnumTryAs", "EnumDiscriminants"];
    let lt = s.has_lifetime();
    if !lt {
        d.push("EnumIter");
        d.push("FromRepr");
    }
    let fieldless = s.variants.iter().all(|v| v.kind.is_unit());
    if fieldless && s.generics.is_empty() {
        d.push("VariantArray");
        if s.variants.iter().any(|v| !v.disabled) {
            d.push("EnumTable");
        }
    }
    d
}

/// render one program for a configuration
pub fn render(p: &C19Program, cfg: &str, idx: usize) -> String {
    let mut spec = p.spec.clone();
    let (strum, crate_attr): (&str, Option<String>) = match cfg {
        // three spellings of the path; the `::`-rooted one sits next to a local module with the crate's name
        // four spellings of the path; the `::`-rooted one sits next to a local module with the crate's name, the last one is a
        // single identifier bound by a `use` alias in the enum's module (not an extern crate name)
        "renamed" => match idx % 4 {
            0 => ("strum_x", Some("strum_x".to_string())),
            1 => ("strum_x", Some("crate::re::strum_x".to_string())),
            2 => ("::strum_x", Some("::strum_x".to_string())),
            _ => ("st", Some("st".to_string())),
        },
        // a local module named `strum` is in scope as well: the derives are named by absolute path, and the generated code
        // must reach the crate through `::strum` (its default path) too
        "shadowed" => ("::strum", None),
        _ => ("strum", None),
    };
    spec.crate_path = crate_attr.clone();
    if spec.syntax.iter().any(|x| x == "crate-attr-second") {
        spec.syntax.retain(|x| x != "crate-attr-second");
        if let Some(c) = &crate_attr {
            // the enum-level options are split over two attributes and the crate path is in the second one
            spec.crate_path = None;
            spec.extra_attrs.insert(0, format!("#[strum(crate = \"{}\")]", c));
        }
    }
    let crate_tail = match &crate_attr {
        Some(c) => format!(", crate = \"{}\"", c),
        None => String::new(),
    };
    let strum_crate = match &crate_attr {
        Some(c) => format!(", strum(crate = \"{}\")", c),
        None => String::new(),
    };
    spec.extra_attrs = spec
        .extra_attrs
        .iter()
        .map(|a| a.replace("STRUM::", &format!("{}::", strum)).replace("CRATEATTR", &crate_tail).replace("STRUMCRATE", &strum_crate))
        .collect();
    if spec.parse_err {
        // the no_std crate defines its own error type
        spec.parse_err = false;
        spec.extra_attrs.push("#[strum(parse_err_ty = crate::MyErr, parse_err_fn = crate::my_err)]".into());
    }
    let solo: Option<String> = spec.syntax.iter().find_map(|x| x.strip_prefix("solo:").map(|y| y.to_string()));
    let derives: Vec<String> = admissible(&spec).iter().filter(|d| solo.as_deref().map(|o| o == **d).unwrap_or(true)).map(|d| format!("{}::{}", strum, d)).collect();
    let mut all: Vec<String> = derives;
    let fieldless = spec.variants.iter().all(|v| v.kind.is_unit());
    if (fieldless && spec.generics.is_empty()) || spec.use_phf {
        if !all.iter().any(|d| d == "Clone") {
            all.push("Clone".into());
        }
    }
    let dref: Vec<&str> = all.iter().map(|s| s.as_str()).collect();
    let mut o = String::new();
    if cfg == "shadowed" {
        o.push_str("mod core {}\nmod std {}\nmod strum {}\n");
    }
    if crate_attr.as_deref() == Some("::strum_x") {
        o.push_str("mod strum_x {}\n");
    }
    if crate_attr.as_deref() == Some("st") {
        o.push_str("#[allow(unused_imports)]\nuse crate::re::strum_x as st;\n");
    }
    o.push_str(&render_enum(&spec, &dref));
    o.push_str(&render_dw_helpers(&spec, "u8"));
    o
}

/// crate-level prelude for a configuration
pub fn prelude(cfg: &str) -> String {
    let mut o = String::new();
    if cfg == "no_std" {
        o.push_str("#![no_std]\n");
    }
    if cfg == "renamed" {
        o.push_str("pub mod re { pub use ::strum_x; }\n");
    }
    o.push_str(
        r#"#[derive(Debug, Clone, Copy, PartialEq, Eq, Default)]
pub struct Cap { pub buf: [u8; 24], pub len: usize }
impl From<&str> for Cap {
    fn from(s: &str) -> Cap {
        let mut c = Cap { buf: [0; 24], len: 0 };
        for b in s.bytes().take(24) { c.buf[c.len] = b; c.len += 1; }
        c
    }
}
impl ::core::fmt::Display for Cap {
    fn fmt(&self, f: &mut ::core::fmt::Formatter<'_>) -> ::core::fmt::Result {
        match ::core::str::from_utf8(&self.buf[..self.len]) { Ok(s) => f.pad(s), Err(_) => f.pad("?") }
    }
}
#[derive(Debug, PartialEq)]
pub struct MyErr;
pub fn my_err(_s: &str) -> MyErr { MyErr }
"#,
    );
    o
}
