//! C03 — all string-producing derives agree on one canonical name per variant.

use super::*;
use crate::devs::{dev, enumerate, Dev};
use crate::harness::Ctx;
use crate::refsem;
use crate::spec::*;
use serde_json::json;

pub fn def() -> PropDef {
    PropDef {
        id: "C03",
        mode: Mode::Run,
        programs,
        strum_features: &["derive"],
        profiles: &["dev"],
        rule: "programs: <=k deviations from the base: per variant kind (tuple1, tuple2, named1), to_string, 1..3 serialize literals of pairwise distinct BYTE lengths in \
               EVERY order (incl. a pair whose longest-by-bytes differs from longest-by-chars), both, disabled; enum: prefix in {\"\", \"p_\", \"é/\"}, all 16 style strings, \
               const_into_str. Two twin enums per program (Display/AsRefStr/IntoStaticStr/AsStaticStr/VariantNames and the deprecated ToString). oracle: seven observations per \
               enabled variant (format!, as_ref, as_static, From by value, From by reference, const into_str, to_string of the twin) all equal R-name; VARIANTS[i] == R-name(v_i) \
               for every declared i and VARIANTS.len() == N. non-trivial = a variant with an explicit spelling, a prefix or a style; distinct per (program, variant, observation)",
        trusted_base: &["rustc", "vf-core R-name / R-case", "generated constructor expressions"],
        assumptions: &["equal-length serialize ties are outside the domain (the statement says 'longest')"],
        required_outcomes: &["to_string-wins", "longest-serialize-not-last", "prefixed", "styled", "const-into-str", "disabled-in-VARIANTS"],
    }
}

fn perms<T: Clone>(v: &[T]) -> Vec<Vec<T>> {
    if v.len() <= 1 {
        return vec![v.to_vec()];
    }
    let mut out = Vec::new();
    for i in 0..v.len() {
        let mut rest = v.to_vec();
        let x = rest.remove(i);
        for mut p in perms(&rest) {
            p.insert(0, x.clone());
            out.push(p);
        }
    }
    out
}

fn alphabet(n: usize, tier: Tier) -> Vec<Dev> {
    let mut d: Vec<Dev> = Vec::new();
    let sets: Vec<Vec<&str>> = match tier {
        // literals chosen so that "longest by bytes" differs from "last", "first", "alphabetically greatest/smallest" and "longest by chars"
        Tier::Quick => vec![vec!["z", "abc"], vec!["bc", "xyz"], vec!["m", "zz", "abcd"], vec!["éé", "xyz"]],
        Tier::Thorough => vec![vec!["z", "abc"], vec!["a", "xyz"], vec!["bc", "xyz"], vec!["m", "zz", "abcd"], vec!["a", "bc", "xyz"], vec!["é", "xyz"], vec!["éé", "xyz"], vec!["", "a"], vec!["a"], vec!["Z", "abc"]],
    };
    for i in 0..n {
        for set in &sets {
            for p in perms(set) {
                let p2: Vec<String> = p.iter().map(|s| s.to_string()).collect();
                d.push(dev(format!("v{}.serialize={:?}", i, p), &[&format!("ser{}", i)], move |s| {
                    s.variants[i].serialize = p2.clone();
                    true
                }));
            }
        }
        // to_string wins even when a serialize literal is strictly longer (one deviation, so that it combines with prefix / const_into_str / styles at k = 2)
        d.push(dev(format!("v{}.to_string=\"t\"+serialize=[\"zz\",\"longer\"]", i), &[&format!("tos{}", i), &format!("ser{}", i)], move |s| {
            s.variants[i].to_string = Some("t".into());
            s.variants[i].serialize = vec!["zz".into(), "longer".into()];
            true
        }));
        // attributes read by the parser only: the printed name keeps its case
        d.push(dev(format!("v{}.ascii_case_insensitive + serialize=[\"esc\", \"Escape\"]", i), &[&format!("ser{}", i), &format!("aci{}", i)], move |s| {
            s.variants[i].aci = Some(Aci::Bare);
            s.variants[i].serialize = vec!["esc".into(), "Escape".into()];
            true
        }));
        // characters that need escaping inside a string literal (a name must not be re-lexed)
        d.push(dev(format!("v{}.to_string=\"q\\\"b\\\\n\"", i), &[&format!("tos{}", i)], move |s| {
            s.variants[i].to_string = Some("q\"b\\n".into());
            true
        }));
        // an EMPTY literal is still the name (to_string = "" -> "", a lone serialize = "" -> "")
        d.push(dev(format!("v{}.serialize=[\"\"] (only spelling)", i), &[&format!("ser{}", i)], move |s| {
            s.variants[i].serialize = vec![String::new()];
            true
        }));
        d.push(dev(format!("v{}.to_string=\"\" + serialize=[\"zz\"]", i), &[&format!("tos{}", i), &format!("ser{}", i)], move |s| {
            s.variants[i].to_string = Some(String::new());
            s.variants[i].serialize = vec!["zz".into()];
            true
        }));
        for l in ["t", "tttt", "É", "a{{b}}", ""] {
            d.push(dev(format!("v{}.to_string={:?}", i, l), &[&format!("tos{}", i)], move |s| {
                s.variants[i].to_string = Some(l.to_string());
                true
            }));
        }
        for (kn, kd) in [
            ("tuple1", Kind::Tuple(vec![FieldTy::U8])),
            ("tuple2", Kind::Tuple(vec![FieldTy::U8, FieldTy::Bool])),
            ("named1", Kind::Named(vec![NamedField { name: "x".into(), ty: FieldTy::I32, default_with: false }])),
        ] {
            d.push(dev(format!("v{}.kind={}", i, kn), &[&format!("kind{}", i)], move |s| {
                s.variants[i].kind = kd.clone();
                true
            }));
        }
        // a raw identifier stands for the identifier without `r#`
        d.push(dev(format!("v{}.ident=ÉtéÑu", i), &[&format!("id{}", i)], move |s| {
            if s.variants.iter().any(|v| v.ident == "ÉtéÑu") {
                return false;
            }
            s.variants[i].ident = "ÉtéÑu".into();
            true
        }));
        d.push(dev(format!("v{}.ident=r#try", i), &[&format!("id{}", i)], move |s| {
            if s.variants.iter().any(|v| v.ident == "r#try") {
                return false;
            }
            s.variants[i].ident = "r#try".into();
            true
        }));
        // `disabled` written BEFORE the spellings in the same list: the keys after it still count (VARIANTS, get_serializations)
        d.push(dev(format!("v{}: #[strum(disabled, serialize = \"longer-one\", serialize = \"zq\")] (reversed list)", i), &[&format!("dis{}", i), &format!("ser{}", i), &format!("layout{}", i)], move |s| {
            s.variants[i].disabled = true;
            s.variants[i].serialize = vec!["zq".into(), "longer-one".into()];
            s.variants[i].layout = Layout::Reversed;
            true
        }));
        d.push(dev(format!("v{}.disabled", i), &[&format!("dis{}", i)], move |s| {
            s.variants[i].disabled = true;
            true
        }));
    }
    for p in ["", "p_", "é/", "K", "Bb", "Kk"] {
        d.push(dev(format!("prefix={:?}", p), &["prefix"], move |s| {
            s.prefix = Some(p.to_string());
            true
        }));
    }
    for st in refsem::style_strings() {
        d.push(dev(format!("serialize_all={:?}", st), &["style"], move |s| {
            s.serialize_all = Some(st.to_string());
            true
        }));
    }
    d.push(dev("also derives EnumDiscriminants with strum_discriminants(derive(Display), strum(serialize_all = \"snake_case\", prefix = \"d/\"))", &["discr"], |s| {
        if !s.generics.is_empty() {
            return false;
        }
        s.extra_attrs.push("#[derive(strum::EnumDiscriminants)]".into());
        s.extra_attrs.push("#[strum_discriminants(derive(strum::Display), strum(serialize_all = \"snake_case\", prefix = \"d/\"))]".into());
        true
    }));
    d.push(dev("const_into_str", &["cis"], |s| {
        s.const_into_str = true;
        true
    }));
    for i in 0..n {
        for (ln, l) in [("split", Layout::Split), ("reversed", Layout::Reversed)] {
            d.push(dev(format!("v{}.layout={}", i, ln), &[&format!("layout{}", i)], move |s| {
                let v = &s.variants[i];
                if v.serialize.len() + (v.to_string.is_some() as usize) + (v.disabled as usize) < 2 {
                    return false;
                }
                s.variants[i].layout = l;
                true
            }));
        }
    }
    d.extend(crate::devs::rich_generic_devs(true));
    d.extend(crate::devs::context_devs());
    d.extend(crate::devs::rebound_prelude_devs());
    d.extend(crate::devs::rare_shape_devs(n, true));
    d.extend(crate::devs::syntax_devs(true, false, true, false));
    d
}

fn domain(s: &EnumSpec) -> bool {
    // ties in byte length between distinct serialize literals are outside the statement
    s.variants.iter().all(|v| refsem::name_noprefix(s, v).is_some())
}

pub fn programs(tier: Tier) -> ProgramSet {
    let mut out = Vec::new();
    let mut excluded = 0u64;
    let mut seen = std::collections::HashSet::new();
    let plan: Vec<(usize, usize)> = match tier {
        Tier::Quick => vec![(3, 1), (2, 2)],
        Tier::Thorough => vec![(3, 2), (2, 3)],
    };
    for (n, k) in plan {
        let (specs, ex) = enumerate(&EnumSpec::base(n), &format!("B{}", n), &alphabet(n, tier), k, &domain);
        excluded += ex as u64;
        for e in specs {
            if seen.insert(e.spec.clone()) {
                let source = render(&e.spec);
                out.push(Program { idx: 0, label: e.label, k: e.k, spec: e.spec, aux: json!(null), source });
            }
        }
    }
    for (mut spec, label) in super::strfam::scale_specs() {
        // C03's glue builds const values: keep const-constructible payloads
        for v in spec.variants.iter_mut() {
            if !v.kind.is_unit() {
                v.kind = Kind::Tuple(vec![FieldTy::U8, FieldTy::Bool, FieldTy::I32, FieldTy::U8, FieldTy::Bool]);
            }
        }
        spec.aci = false;
        for v in spec.variants.iter_mut() {
            v.aci = None;
        }
        if domain(&spec) && seen.insert(spec.clone()) {
            for cis in [false, true] {
                let mut sp = spec.clone();
                sp.const_into_str = cis;
                sp.prefix = if cis { Some("prefix/".into()) } else { None };
                let source = render(&sp);
                out.push(Program { idx: 0, label: format!("{}{}", label, if cis { " + const_into_str + prefix" } else { "" }), k: 1, spec: sp, aux: json!(null), source });
            }
        }
    }
    let mut ex = std::collections::BTreeMap::new();
    ex.insert("tie in byte length between serialize literals".to_string(), excluded);
    ProgramSet { programs: finish(out), excluded: ex, bounds: json!({"plan_(N,k)": if tier == Tier::Quick { json!([[3,1],[2,2]]) } else { json!([[3,2],[2,3]]) }, "styles": 16, "prefixes": ["", "p_", "é/", "K", "Bb", "Kk"]}) }
}

pub fn render(spec: &EnumSpec) -> String {
    let mut o = String::new();
    o.push_str(&render_enum(spec, &["Debug", "strum::Display", "strum::AsRefStr", "strum::IntoStaticStr", "strum::AsStaticStr", "strum::VariantNames"]));
    let mut twin = spec.clone();
    twin.name = "W".into();
    twin.const_into_str = false;
    o.push_str(&render_enum(&twin, &["Debug", "strum::ToString"]));
    // const into_str observations
    if spec.const_into_str {
        for (i, v) in spec.variants.iter().enumerate() {
            if !v.disabled {
                // a value with a String inside needs a destructor, which a const initialiser cannot run on a temporary:
                // such values live in a static and the const observation borrows that
                let owns_heap = match &v.kind {
                    Kind::Unit => false,
                    Kind::Tuple(ts) => ts.iter().any(|t| matches!(t, FieldTy::Str)),
                    Kind::Named(fs) => fs.iter().any(|f| matches!(f.ty, FieldTy::Str)),
                };
                if owns_heap {
                    o.push_str(&format!(
                        "static CISV_{i}: {n}{g} = {v};\nconst CIS_{i}: &'static str = CISV_{i}.into_str();\n",
                        i = i,
                        n = spec.name,
                        g = spec.generics_inst(),
                        v = render_default_value(spec, i)
                    ));
                } else {
                    o.push_str(&format!("const CIS_{}: &'static str = {}.into_str();\n", i, render_default_value(spec, i)));
                }
            }
        }
    }
    o.push_str(&format!("type EC = {}{};\n", spec.name, spec.generics_inst()));
    o.push_str("pub fn run(ctx: &mut vf_core::Ctx) {\n    use strum::AsStaticRef;\n    let mut obs: Vec<(usize, &'static str, Result<String, String>)> = Vec::new();\n");
    for (i, v) in spec.variants.iter().enumerate() {
        if v.disabled {
            continue;
        }
        let e = render_default_value(spec, i);
        let w = render_default_value(&twin, i);
        o.push_str(&format!("    obs.push(({i}, \"format!\", vf_core::guard(|| format!(\"{{}}\", {e}))));\n", i = i, e = e));
        o.push_str(&format!("    obs.push(({i}, \"as_ref\", vf_core::guard(|| AsRef::<str>::as_ref(&{e}).to_string())));\n", i = i, e = e));
        o.push_str(&format!("    obs.push(({i}, \"as_static\", vf_core::guard(|| AsStaticRef::<str>::as_static(&{e}).to_string())));\n", i = i, e = e));
        o.push_str(&format!("    obs.push(({i}, \"From<E>\", vf_core::guard(|| <&'static str as From<EC>>::from({e}).to_string())));\n", i = i, e = e));
        o.push_str(&format!("    obs.push(({i}, \"From<&E>\", vf_core::guard(|| <&'static str as From<&EC>>::from(&{e}).to_string())));\n", i = i, e = e));
        o.push_str(&format!("    obs.push(({i}, \"ToString(twin)\", vf_core::guard(|| ToString::to_string(&{w}))));\n", i = i, w = w));
        if spec.const_into_str {
            o.push_str(&format!("    obs.push(({i}, \"const into_str\", Ok(CIS_{i}.to_string())));\n", i = i));
        }
    }
    o.push_str("    let names: Vec<String> = <EC as strum::VariantNames>::VARIANTS.iter().map(|s| s.to_string()).collect();\n");
    o.push_str("    vf_core::props::c03::check(ctx, obs, names);\n}\n");
    o
}

pub fn check(ctx: &mut Ctx, obs: Vec<(usize, &'static str, Result<String, String>)>, names: Vec<String>) {
    let spec = ctx.spec().clone();
    ctx.state();
    let want_names: Vec<String> = spec.variants.iter().map(|v| refsem::name(&spec, v).expect("domain")).collect();
    ctx.transition();
    let ok = ctx.expect_eq("VARIANTS", "<E as VariantNames>::VARIANTS", &format!("{:?}", want_names), &format!("{:?}", names));
    if ok && spec.variants.iter().any(|v| v.disabled) {
        ctx.outcome("disabled-in-VARIANTS");
        ctx.nontrivial(&"VARIANTS");
    }
    for (i, what, got) in obs {
        let v = &spec.variants[i];
        let want = &want_names[i];
        ctx.transition();
        let g = match &got {
            Ok(s) => s.clone(),
            Err(m) => format!("PANIC({})", m),
        };
        let ok = ctx.expect_eq(&format!("name-{}", what), &format!("variant {} ({})", i, v.ident), want, &g);
        let explicit = v.to_string.is_some() || !v.serialize.is_empty();
        if ok && (explicit || spec.prefix.is_some() || spec.serialize_all.is_some()) {
            ctx.nontrivial(&(i, what));
        }
        if v.to_string.is_some() && !v.serialize.is_empty() {
            ctx.outcome("to_string-wins");
        }
        if v.to_string.is_none() && v.serialize.len() > 1 {
            let src = v.serialize_src_order();
            if src.last() != Some(want) && spec.prefix.is_none() {
                ctx.outcome("longest-serialize-not-last");
            }
        }
        if spec.prefix.is_some() {
            ctx.outcome("prefixed");
        }
        if spec.serialize_all.is_some() && !explicit {
            ctx.outcome("styled");
        }
        if what == "const into_str" {
            ctx.outcome("const-into-str");
        }
    }
    if ctx.want_sample() && ctx.program.idx % 71 == 0 {
        ctx.sample(json!({"program": ctx.program.label, "enum": render_enum(&spec, &["strum::Display", "strum::VariantNames"]), "expected_names": want_names, "VARIANTS": names}));
    }
}
