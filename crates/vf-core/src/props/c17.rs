//! C17 — Display renders fixed names like a str and placeholders like format!.

use super::*;
use crate::devs::{dev, enumerate, Dev};
use crate::fmtgrid::fmt_grid;
use crate::harness::Ctx;
use crate::refsem;
use crate::spec::*;
use serde_json::json;

pub fn def() -> PropDef {
    PropDef {
        id: "C17",
        mode: Mode::Run,
        programs,
        strum_features: &["derive"],
        profiles: &["dev"],
        rule: "P1 (fixed names): <=k deviations from the 2-variant base over kind (unit, tuple1, tuple2, named1, named2), to_string / serialize (incl. multi-byte and empty), prefix \
               (incl. multi-byte), serialize_all; every enabled variant is formatted with the whole spec grid (fill in {none,*,é,0} x align in {none,<,^,>} x width 0..W x precision \
               none/0..P, plus the 0, + and # flags; width/precision as runtime arguments) and compared with the same grid applied to the reference name as a &str. P2 (placeholders): \
               named variants {x: u8, y: i32, z: &'static str} and tuple variants with 1..3 fields whose to_string is generated from a segment grammar (all arrangements with repetition \
               of <= L placeholders x spec forms {f}, {f:>4}, {f:03}, {f:?}, {f:<5} x separators: none / text / escaped braces adjacent to the placeholder / escaped braces around a bare name next to it (`{{0}} = {0};`); tuple literals cover every \
               index); oracle: v.to_string() == format!(the same literal, fields bound by name / position), two payload assignments incl. extremes. non-trivial = every (variant, spec) \
               with width > len or precision < len, every placeholder literal; distinct per (program, variant, spec/payload)",
        trusted_base: &["rustc / core::fmt (`<str as Display>` and `format!` are the reference)", "vf-core R-name", "generated constructors"],
        assumptions: &["interpolated variants under a caller's spec (fill x align x width 0..6 x precision none/0..2 and the 0, + and # flags): the text must be what format! makes of the literal, either unpadded (the spec is ignored) or padded / truncated as a whole like a &str; the statement does not choose between the two, anything else is reported"],
        required_outcomes: &["fixed-unit", "fixed-tuple", "fixed-named", "padded", "truncated", "multibyte-truncated", "named-placeholder", "positional-placeholder", "out-of-order-positional", "escaped-brace-adjacent"],
    }
}

// ---------------------------------------------------------------------------------------------
// P1
// ---------------------------------------------------------------------------------------------

fn p1_alphabet(n: usize, tier: Tier) -> Vec<Dev> {
    let mut d: Vec<Dev> = Vec::new();
    for i in 0..n {
        for (kn, kd) in [
            ("tuple1", Kind::Tuple(vec![FieldTy::U8])),
            ("tuple2", Kind::Tuple(vec![FieldTy::U8, FieldTy::Bool])),
            ("named1", Kind::Named(vec![NamedField { name: "x".into(), ty: FieldTy::I32, default_with: false }])),
            ("named2", Kind::Named(vec![NamedField { name: "x".into(), ty: FieldTy::U8, default_with: false }, NamedField { name: "y".into(), ty: FieldTy::Bool, default_with: false }])),
            // field names that coincide with identifiers the generated code uses itself
            ("named{f}", Kind::Named(vec![NamedField { name: "f".into(), ty: FieldTy::U8, default_with: false }])),
            ("named{fmt, formatter}", Kind::Named(vec![NamedField { name: "fmt".into(), ty: FieldTy::U8, default_with: false }, NamedField { name: "formatter".into(), ty: FieldTy::Bool, default_with: false }])),
            ("named{self_, field0}", Kind::Named(vec![NamedField { name: "self_".into(), ty: FieldTy::U8, default_with: false }, NamedField { name: "field0".into(), ty: FieldTy::Bool, default_with: false }])),
        ] {
            d.push(dev(format!("v{}.kind={}", i, kn), &[&format!("kind{}", i)], move |s| {
                s.variants[i].kind = kd.clone();
                true
            }));
        }
        let lits: Vec<&str> = if tier == Tier::Quick { vec!["t", "tété tt", "", "{{x}}", "q\"b\\n"] } else { vec!["t", "tété tt", "", "éé", "a b", "0123456789abcdef", "{{x}}", "}}{{", "q\"b\\n"] };
        for l in lits {
            d.push(dev(format!("v{}.to_string={:?}", i, l), &[&format!("tos{}", i)], move |s| {
                s.variants[i].to_string = Some(l.to_string());
                true
            }));
        }
        d.push(dev(format!("v{}.serialize=[\"z\",\"abcé\"]", i), &[&format!("ser{}", i)], move |s| {
            s.variants[i].serialize = vec!["z".into(), "abcé".into()];
            true
        }));
    }
    for p in ["p_", "é/"] {
        d.push(dev(format!("prefix={:?}", p), &["prefix"], move |s| {
            s.prefix = Some(p.to_string());
            true
        }));
    }
    for st in ["SCREAMING-KEBAB-CASE", "title_case"] {
        d.push(dev(format!("serialize_all={:?}", st), &["style"], move |s| {
            s.serialize_all = Some(st.to_string());
            true
        }));
    }
    d.extend(crate::devs::rich_generic_devs(true));
    d.extend(crate::devs::context_devs());
    d.extend(crate::devs::rebound_prelude_devs());
    d.extend(crate::devs::rare_shape_devs(n, true));
    d.extend(crate::devs::syntax_devs(true, false, true, false));
    d
}

fn render_p1(spec: &EnumSpec) -> String {
    let mut o = String::new();
    o.push_str(&render_enum(spec, &["Debug", "strum::Display"]));
    o.push_str("pub fn run(ctx: &mut vf_core::Ctx) {\n    let (w, p) = vf_core::props::c17::grid_bounds(ctx);\n    let mut obs: Vec<(usize, Result<(String, Vec<(String, String)>), String>)> = Vec::new();\n");
    for i in 0..spec.variants.len() {
        let e = render_default_value(spec, i);
        o.push_str(&format!("    obs.push(({i}, vf_core::guard(|| {{ let v = {e}; (v.to_string(), vf_core::fmtgrid::fmt_grid(&v, w, p)) }})));\n", i = i, e = e));
    }
    o.push_str("    vf_core::props::c17::check_p1(ctx, obs);\n}\n");
    o
}

pub fn grid_bounds(ctx: &Ctx) -> (usize, usize) {
    if ctx.thorough() {
        (16, 8)
    } else {
        (10, 5)
    }
}

pub fn check_p1(ctx: &mut Ctx, obs: Vec<(usize, Result<(String, Vec<(String, String)>), String>)>) {
    let spec = ctx.spec().clone();
    let (w, p) = grid_bounds(ctx);
    ctx.state();
    for (i, r) in obs {
        let v = &spec.variants[i];
        let name = refsem::name(&spec, v).expect("no ties in this corpus");
        let who = format!("variant {} ({})", i, v.ident);
        match r {
            Err(m) => ctx.violation("display-panic", &who, "no panic", &m),
            Ok((ts, grid)) => {
                ctx.transition();
                ctx.expect_eq("to_string", &who, &name, &ts);
                let want = fmt_grid(name.as_str(), w, p);
                ctx.outcome(match v.kind {
                    Kind::Unit => "fixed-unit",
                    Kind::Tuple(_) => "fixed-tuple",
                    Kind::Named(_) => "fixed-named",
                });
                for ((spec_s, got), (_, exp)) in grid.iter().zip(want.iter()) {
                    ctx.transition();
                    let ok = ctx.expect_eq("format-spec", &format!("format!({:?}, {})", spec_s, who), exp, got);
                    let nchars = name.chars().count();
                    if exp.chars().count() > nchars {
                        ctx.outcome("padded");
                        if ok {
                            ctx.nontrivial(&(i, spec_s.clone()));
                        }
                    } else if exp.chars().count() < nchars {
                        ctx.outcome("truncated");
                        if !name.is_ascii() {
                            ctx.outcome("multibyte-truncated");
                        }
                        if ok {
                            ctx.nontrivial(&(i, spec_s.clone()));
                        }
                    }
                }
            }
        }
    }
    if ctx.want_sample() && ctx.program.idx % 59 == 0 {
        ctx.sample(json!({"program": ctx.program.label, "enum": render_enum(&spec, &["strum::Display"]), "grid_specs": fmt_grid("x", w, p).len()}));
    }
}

// ---------------------------------------------------------------------------------------------
// P2
// ---------------------------------------------------------------------------------------------

const FORMS: [&str; 6] = ["", ":>4", ":03", ":?", ":<5", "::>3"];

/// all sequences over `alphabet` of length 1..=lmax
fn seqs(alphabet: usize, lmax: usize) -> Vec<Vec<usize>> {
    let mut out = Vec::new();
    let mut level: Vec<Vec<usize>> = vec![vec![]];
    for _ in 0..lmax {
        let mut next = Vec::new();
        for s in &level {
            for a in 0..alphabet {
                let mut t = s.clone();
                t.push(a);
                next.push(t);
            }
        }
        out.extend(next.iter().cloned());
        level = next;
    }
    out
}

/// literals for a variant whose placeholders are named by `names`; `cover_all`: every name must occur
fn literals(names: &[&str], lmax: usize, cover_all: bool, forms_full: bool) -> Vec<String> {
    let mut out = Vec::new();
    for arr in seqs(names.len(), lmax) {
        if cover_all && !(0..names.len()).all(|i| arr.contains(&i)) {
            continue;
        }
        // spec forms: every placeholder gets the same rotation offset, plus (full) all combinations for short literals
        let form_sets: Vec<Vec<usize>> = if forms_full && arr.len() <= 2 {
            seqs(FORMS.len(), arr.len()).into_iter().filter(|s| s.len() == arr.len()).collect()
        } else {
            (0..FORMS.len()).map(|o| (0..arr.len()).map(|j| (o + j) % FORMS.len()).collect()).collect()
        };
        for fs in form_sets {
            for sep in 0..5 {
                let mut l = String::new();
                for (j, (&a, &f)) in arr.iter().zip(fs.iter()).enumerate() {
                    let ph = format!("{{{}{}}}", names[a], FORMS[f]);
                    match sep {
                        0 => l.push_str(&ph),
                        1 => {
                            if j > 0 {
                                l.push_str(" a ");
                            }
                            l.push_str(&ph);
                        }
                        2 => {
                            l.push_str("{{");
                            l.push_str(&ph);
                            l.push_str("}}");
                        }
                        4 => {
                            // multi-byte text before the placeholder (byte offsets != char offsets)
                            l.push_str("日é→");
                            l.push_str(&ph);
                        }
                        _ => {
                            // escaped braces around a bare name / index: text, not a placeholder
                            l.push_str(&format!("{{{{{}}}}} = ", names[a]));
                            l.push_str(&ph);
                            l.push(';');
                        }
                    }
                }
                if !out.contains(&l) {
                    out.push(l);
                }
            }
        }
    }
    out
}

fn p2_programs(tier: Tier) -> Vec<Program> {
    let th = tier == Tier::Thorough;
    let mut out = Vec::new();
    let per_enum = 24;
    let mut pack = |label: &str, kind: Kind, lits: Vec<String>, out: &mut Vec<Program>| {
        for (ci, chunk) in lits.chunks(per_enum).enumerate() {
            let mut spec = EnumSpec::base(0);
            for (j, l) in chunk.iter().enumerate() {
                let mut v = VariantSpec::unit(&format!("V{}", j));
                v.kind = kind.clone();
                v.to_string = Some(l.clone());
                spec.variants.push(v);
            }
            let mentions_lifetime = match &kind {
                Kind::Tuple(fs) => fs.iter().any(|f| f.ty().contains("'a")),
                Kind::Named(fs) => fs.iter().any(|f| f.ty.ty().contains("'a")),
                Kind::Unit => false,
            };
            if mentions_lifetime {
                spec.generics = vec![Generic::Lifetime { name: "a".into() }];
            }
            let source = render_p2(&spec);
            out.push(Program { idx: 0, label: format!("P2 {} #{} ({} literals)", label, ci, chunk.len()), k: 1, spec, aux: json!({"p2": true}), source });
        }
    };
    let named = Kind::Named(vec![
        NamedField { name: "x".into(), ty: FieldTy::U8, default_with: false },
        NamedField { name: "y".into(), ty: FieldTy::I32, default_with: false },
        NamedField { name: "z".into(), ty: FieldTy::SStr, default_with: false },
    ]);
    pack("named{x,y,z}", named.clone(), literals(&["x", "y", "z"], if th { 3 } else { 2 }, false, th), &mut out);
    // the same field named by two placeholders with ANOTHER field's placeholder in between (and back to back)
    pack(
        "named{x,y,z} repeated fields",
        named,
        ["{x}{y}{x}", "{x}x{y} (x={x})", "<{z}>{y}</{z}>", "{x:>3}..{y:>3} from {x:?}", "{z}{z}{x}{z}", "{y}{x}{y}{x}", "{x}{x:>3}"].iter().map(|s| s.to_string()).collect(),
        &mut out,
    );
    pack("tuple2 repeated indices", Kind::Tuple(vec![FieldTy::I32, FieldTy::SStr]), ["{0}{1}{0}", "{1}{0}{1}{0}", "{0}{0:>4}{1}"].iter().map(|s| s.to_string()).collect(), &mut out);
    pack("named{f}", Kind::Named(vec![NamedField { name: "f".into(), ty: FieldTy::U8, default_with: false }]), literals(&["f"], 2, false, true), &mut out);
    pack("named{fmt}", Kind::Named(vec![NamedField { name: "fmt".into(), ty: FieldTy::U8, default_with: false }]), literals(&["fmt"], 2, false, false), &mut out);
    // a field declared with a raw identifier is named by the identifier it stands for (`{type}`), as in format!
    pack(
        "named{r#type, r#fn}",
        Kind::Named(vec![NamedField { name: "r#type".into(), ty: FieldTy::U8, default_with: false }, NamedField { name: "r#fn".into(), ty: FieldTy::SStr, default_with: false }]),
        literals(&["type", "fn"], 2, false, false),
        &mut out,
    );
    pack("tuple1", Kind::Tuple(vec![FieldTy::U8]), literals(&["0"], if th { 3 } else { 2 }, true, true), &mut out);
    pack("tuple2", Kind::Tuple(vec![FieldTy::I32, FieldTy::SStr]), literals(&["0", "1"], if th { 4 } else { 3 }, true, th), &mut out);
    pack("tuple3", Kind::Tuple(vec![FieldTy::U8, FieldTy::I32, FieldTy::SStr]), literals(&["0", "1", "2"], if th { 4 } else { 3 }, true, false), &mut out);
    // width / precision taken from ANOTHER field (`1$`, `w$`, `.*` is not available for explicit positions)
    let us = FieldTy::Raw("usize".into(), "0".into());
    pack(
        "tuple3 nested width/precision args",
        Kind::Tuple(vec![FieldTy::SStr, us.clone(), us.clone()]),
        ["{0:>1$.2$}", "[{0:>1$}]{2}", "{0:.2$}|{1}", "{2}{0:^1$}", "{0:1$}{0:.2$}", "{1:>2$}{0}", "{0:*<1$}{2:03}", "{0:>1$}{{{2}}}"].iter().map(|s| s.to_string()).collect(),
        &mut out,
    );
    pack("tuple2 nested width arg only", Kind::Tuple(vec![FieldTy::I32, us.clone()]), ["{0:>1$}", "[{0:<1$}]", "{0:01$}", "{0:+1$}"].iter().map(|s| s.to_string()).collect(), &mut out);
    pack(
        "named{s,w,p} nested width/precision args",
        Kind::Named(vec![
            NamedField { name: "s".into(), ty: FieldTy::SStr, default_with: false },
            NamedField { name: "w".into(), ty: us.clone(), default_with: false },
            NamedField { name: "p".into(), ty: us.clone(), default_with: false },
        ]),
        ["{s:>w$}", "{s:.p$}", "{s:>w$.p$}", "{w}{s:^w$}", "{s:w$}|{p}", "{s:-<w$}{s:.p$}"].iter().map(|s| s.to_string()).collect(),
        &mut out,
    );
    // fields that are mutable references (the arm must bind them by reference, not move them out of `&self`)
    let mr = FieldTy::Raw("&'a mut u8".into(), "0".into());
    pack("tuple(&'a mut u8, i32)", Kind::Tuple(vec![mr.clone(), FieldTy::I32]), ["{0}/{1}", "{1:>4}{0:03}", "{0:?} {1}"].iter().map(|s| s.to_string()).collect(), &mut out);
    pack(
        "named{m: &'a mut u8, s: &'a str} incl. fixed names",
        Kind::Named(vec![NamedField { name: "m".into(), ty: mr.clone(), default_with: false }, NamedField { name: "s".into(), ty: FieldTy::LStr, default_with: false }]),
        ["{m}{s}", "{s}", "fixed name", "{m:>4}|{s:<3}|"].iter().map(|s| s.to_string()).collect(),
        &mut out,
    );
    // tuple variants of DIFFERENT arity in one enum (the arguments of one arm must not depend on its siblings), one disabled
    {
        let mut spec = EnumSpec::base(0);
        for (j, (kind, l, dis)) in [
            (Kind::Tuple(vec![FieldTy::U8]), "{0}", false),
            (Kind::Tuple(vec![FieldTy::U8, FieldTy::I32, FieldTy::SStr]), "{0}-{1}-{2} wide", false),
            (Kind::Tuple(vec![FieldTy::I32, FieldTy::SStr]), "{1}/{0}", false),
            (Kind::Tuple(vec![FieldTy::U8]), "<{0:>4}>", false),
            (Kind::Tuple(vec![FieldTy::U8, FieldTy::I32, FieldTy::SStr, FieldTy::U8]), "{3}{2}{1}{0}", true),
            (Kind::Named(vec![NamedField { name: "id".into(), ty: FieldTy::U8, default_with: false }, NamedField { name: "idx".into(), ty: FieldTy::I32, default_with: false }]), "{idx:02}", false),
            (Kind::Named(vec![NamedField { name: "w".into(), ty: FieldTy::U8, default_with: false }, NamedField { name: "width".into(), ty: FieldTy::I32, default_with: false }]), "{width:>4}", false),
        ]
        .into_iter()
        .enumerate()
        {
            let mut v = VariantSpec::unit(&format!("V{}", j));
            v.kind = kind;
            v.to_string = Some(l.to_string());
            v.disabled = dis;
            spec.variants.push(v);
        }
        let source = render_p2(&spec);
        out.push(Program { idx: 0, label: "P2 mixed: tuple variants of arity 1 / 3 / 2 / 1 / 4(disabled), named fields whose names are prefixes of one another".into(), k: 2, spec, aux: json!({"p2": true}), source });
    }
    // placeholders of a struct / tuple variant that name NO field but constants in scope (implicit capture, exactly as format!)
    {
        let mut spec = EnumSpec::base(0);
        for (j, (kind, l)) in [
            (Kind::Named(vec![NamedField { name: "attempt".into(), ty: FieldTy::U8, default_with: false }]), "timeout after {VF_LIMIT}{VF_UNIT}"),
            (Kind::Named(vec![NamedField { name: "attempt".into(), ty: FieldTy::U8, default_with: false }]), "{attempt} of {VF_LIMIT:>5}"),
        ]
        .into_iter()
        .enumerate()
        {
            let mut v = VariantSpec::unit(&format!("V{}", j));
            v.kind = kind;
            v.to_string = Some(l.to_string());
            spec.variants.push(v);
        }
        let source = format!("#[allow(dead_code)]\nconst VF_LIMIT: u32 = 250;\n#[allow(dead_code)]\nconst VF_UNIT: &str = \"ms\";\n{}", render_p2(&spec));
        out.push(Program { idx: 0, label: "P2 named variants whose placeholders name constants in scope".into(), k: 2, spec, aux: json!({"p2": true}), source });
    }
    // a `default` variant with a placeholder to_string is formatted like any other interpolated variant
    for (label, kind, l) in [
        ("default tuple(String)", Kind::Tuple(vec![FieldTy::Str]), "other: {0}"),
        ("default tuple(String), spec", Kind::Tuple(vec![FieldTy::Str]), "[{0:>6}]"),
        ("default named{raw: String}", Kind::Named(vec![NamedField { name: "raw".into(), ty: FieldTy::Str, default_with: false }]), "<{raw}> {{raw}}"),
    ] {
        let mut spec = EnumSpec::base(1);
        let mut v = VariantSpec::unit("Dflt");
        v.kind = kind;
        v.default = true;
        v.to_string = Some(l.to_string());
        spec.variants[0].to_string = Some("fixed".into());
        spec.variants.insert(0, v);
        // the base variant is a fixed name: skipped by render_p2 (unit)
        let source = render_p2(&spec);
        out.push(Program { idx: 0, label: format!("P2 {} with to_string = {:?}", label, l), k: 2, spec, aux: json!({"p2": true}), source });
    }
    // SCALE: 12 fields — two-digit positional indices, field names that are prefixes / extensions of one another.
    // Tuple literals end with every index once (format! itself rejects unused positional arguments).
    let tys = [FieldTy::U8, FieldTy::I32, FieldTy::SStr];
    let wide = |names: &[&str], cover_all: bool| -> Vec<String> {
        let tail = if cover_all { format!(" |{}", names.iter().rev().map(|n| format!("{{{}}}", n)).collect::<Vec<_>>().join(",")) } else { String::new() };
        let mut l: Vec<String> = Vec::new();
        for a in names {
            l.push(format!("{{{}}}{}", a, tail));
            l.push(format!("<{{{}:>4}}>{}", a, tail));
        }
        for a in names {
            for b in names {
                l.push(format!("{{{}}}{{{}}}{}", a, b, tail));
                if th {
                    l.push(format!("{{{}:?}}, {{{{{}}}}} {{{}}}{}", a, b, b, tail));
                }
            }
        }
        l.push(names.iter().map(|n| format!("{{{}}}", n)).collect::<Vec<_>>().join("/"));
        l.push(names.iter().rev().map(|n| format!("{{{}:?}}", n)).collect::<Vec<_>>().join(""));
        l
    };
    let idx: Vec<String> = (0..12).map(|i| i.to_string()).collect();
    let idx_r: Vec<&str> = idx.iter().map(|s| s.as_str()).collect();
    pack("tuple12", Kind::Tuple((0..12).map(|i| tys[i % 3].clone()).collect()), wide(&idx_r, true), &mut out);
    let nm = ["x", "x1", "x10", "x_1", "xx", "a", "ab", "abc", "f0", "field0", "r", "s0_"];
    pack("named12", Kind::Named(nm.iter().enumerate().map(|(i, n)| NamedField { name: n.to_string(), ty: tys[(i + 1) % 3].clone(), default_with: false }).collect()), wide(&nm, false), &mut out);
    out
}

fn payload_expr(ty: &FieldTy, j: usize) -> String {
    match (ty, j) {
        (FieldTy::U8, 0) => "0u8".into(),
        (FieldTy::U8, _) => "255u8".into(),
        (FieldTy::I32, 0) => "-7i32".into(),
        (FieldTy::I32, _) => "i32::MAX".into(),
        (FieldTy::Str, 0) => "String::new()".into(),
        (FieldTy::Str, _) => "String::from(\"a{b\")".into(),
        (FieldTy::SStr, 0) => "\"\"".into(),
        (FieldTy::SStr, _) => "\"é{q}\"".into(),
        (FieldTy::Raw(t, _), 0) if t == "&'a mut u8" => "&mut 0u8".into(),
        (FieldTy::Raw(t, _), _) if t == "&'a mut u8" => "&mut 255u8".into(),
        (FieldTy::LStr, 0) => "\"\"".into(),
        (FieldTy::LStr, _) => "\"é{q}\"".into(),
        (FieldTy::Raw(t, _), 0) if t == "usize" => "0usize".into(),
        (FieldTy::Raw(t, _), _) if t == "usize" => "7usize".into(),
        _ => "Default::default()".into(),
    }
}

/// placeholder names used by a literal (after removing escaped braces)
fn used_names(l: &str) -> Vec<String> {
    let t = l.replace("{{", "").replace("}}", "");
    let mut out = Vec::new();
    let mut rest = t.as_str();
    while let Some(a) = rest.find('{') {
        let b = rest[a..].find('}').map(|x| x + a).unwrap_or(rest.len());
        let inner = &rest[a + 1..b];
        let name = inner.split(':').next().unwrap_or("").to_string();
        if !out.contains(&name) {
            out.push(name);
        }
        // `name$` / `N$` references inside the spec use an argument too
        if let Some(spec_part) = inner.splitn(2, ':').nth(1) {
            let cs: Vec<char> = spec_part.chars().collect();
            for (k, c) in cs.iter().enumerate() {
                if *c == '$' {
                    let mut st = k;
                    while st > 0 && (cs[st - 1].is_alphanumeric() || cs[st - 1] == '_') {
                        st -= 1;
                    }
                    let arg: String = cs[st..k].iter().collect();
                    if !arg.is_empty() && !out.contains(&arg) {
                        out.push(arg);
                    }
                }
            }
        }
        rest = &rest[(b + 1).min(rest.len())..];
    }
    out
}

fn render_p2(spec: &EnumSpec) -> String {
    let mut o = String::new();
    o.push_str(&render_enum(spec, &["Debug", "strum::Display"]));
    o.push_str("pub fn run(ctx: &mut vf_core::Ctx) {\n    let mut obs: Vec<(usize, usize, Result<(String, Vec<(String, String)>), String>, String)> = Vec::new();\n");
    for (i, v) in spec.variants.iter().enumerate() {
        if v.disabled {
            continue;
        }
        let lit_s = lit(v.to_string.as_ref().unwrap());
        for j in 0..2 {
            match &v.kind {
                Kind::Named(fs) => {
                    let vals: Vec<String> = fs.iter().map(|f| payload_expr(&f.ty, j)).collect();
                    let ctor = render_ctor(spec, i, &vals);
                    let used = used_names(v.to_string.as_ref().unwrap());
                    let args: Vec<String> = fs.iter().zip(&vals).filter(|(f, _)| used.iter().any(|u| u == crate::spec::unraw(&f.name))).map(|(f, e)| format!("{} = {}", f.name, e)).collect();
                    o.push_str(&format!("    obs.push(({i}, {j}, vf_core::guard(|| match ({ctor}) {{ v => (v.to_string(), vf_core::fmtgrid::fmt_grid(&v, vf_core::props::c17::OUTER_W, vf_core::props::c17::OUTER_P)) }}), format!({lit}, {args})));\n", i = i, j = j, ctor = ctor, lit = lit_s, args = args.join(", ")));
                }
                Kind::Tuple(fs) => {
                    let vals: Vec<String> = fs.iter().map(|f| payload_expr(f, j)).collect();
                    let ctor = render_ctor(spec, i, &vals);
                    o.push_str(&format!("    obs.push(({i}, {j}, vf_core::guard(|| match ({ctor}) {{ v => (v.to_string(), vf_core::fmtgrid::fmt_grid(&v, vf_core::props::c17::OUTER_W, vf_core::props::c17::OUTER_P)) }}), format!({lit}, {args})));\n", i = i, j = j, ctor = ctor, lit = lit_s, args = vals.join(", ")));
                }
                Kind::Unit => {}
            }
        }
    }
    o.push_str("    vf_core::props::c17::check_p2(ctx, obs);\n}\n");
    o
}

/// bounds of the caller's-spec grid applied to interpolated variants
pub const OUTER_W: usize = 6;
pub const OUTER_P: usize = 2;

pub fn check_p2(ctx: &mut Ctx, obs: Vec<(usize, usize, Result<(String, Vec<(String, String)>), String>, String)>) {
    let spec = ctx.spec().clone();
    ctx.state();
    for (i, j, got_all, want) in obs {
        let (got, grid) = match got_all {
            Ok((s, g)) => (Ok(s), g),
            Err(m) => (Err(m), Vec::new()),
        };
        // The caller's spec on an interpolated variant: the statement fixes the text (what format! makes of the literal) and
        // says nothing about padding it, so two behaviours are accepted - the spec is ignored (what `format_args!` does), or
        // it is applied to the whole text as to a &str. Anything else (the spec reaching a FIELD, a sign, zero padding) is
        // not "as format! renders that literal".
        if !grid.is_empty() {
            let as_str = fmt_grid(want.as_str(), OUTER_W, OUTER_P);
            for ((spec_s, g), (_, b)) in grid.iter().zip(as_str.iter()) {
                ctx.transition();
                if g != &want && g != b {
                    ctx.violation(
                        "placeholder-outer-spec",
                        &format!("format!({:?}, v) with to_string = {:?}, payload #{}", spec_s, spec.variants[i].to_string.clone().unwrap_or_default(), j),
                        &format!("{:?} (spec ignored) or {:?} (applied to the whole text)", want, b),
                        g,
                    );
                }
            }
        }
        let v = &spec.variants[i];
        let l = v.to_string.clone().unwrap_or_default();
        ctx.transition();
        let g = match &got {
            Ok(s) => s.clone(),
            Err(m) => format!("PANIC({})", m),
        };
        let ok = ctx.expect_eq("placeholder", &format!("to_string = {:?} on a {} variant, payload #{}", l, if matches!(v.kind, Kind::Named(_)) { "named" } else { "tuple" }, j), &want, &g);
        if ok {
            ctx.nontrivial(&(i, j));
        }
        match &v.kind {
            Kind::Named(_) => ctx.outcome("named-placeholder"),
            _ => {
                ctx.outcome("positional-placeholder");
                let names = used_names(&l);
                let nums: Vec<usize> = names.iter().filter_map(|n| n.parse().ok()).collect();
                if nums.windows(2).any(|w| w[0] > w[1]) {
                    ctx.outcome("out-of-order-positional");
                }
            }
        }
        if l.contains("{{{") {
            ctx.outcome("escaped-brace-adjacent");
        }
    }
    if ctx.want_sample() && ctx.program.idx % 7 == 0 {
        let v = &spec.variants[spec.variants.len() / 2];
        ctx.sample(json!({"program": ctx.program.label, "variant": format!("#[strum(to_string = {:?})] {}", v.to_string, v.ident)}));
    }
}

pub fn programs(tier: Tier) -> ProgramSet {
    let k = if tier == Tier::Quick { 2 } else { 3 };
    let (specs, _) = enumerate(&EnumSpec::base(2), "B2", &p1_alphabet(2, tier), k, &|s: &EnumSpec| s.variants.iter().all(|v| refsem::name_noprefix(s, v).is_some()));
    let mut out = Vec::new();
    for e in specs {
        let source = render_p1(&e.spec);
        out.push(Program { idx: 0, label: format!("P1 {}", e.label), k: e.k, spec: e.spec, aux: json!({"p2": false}), source });
    }
    let n1 = out.len();
    out.extend(p2_programs(tier));
    let n2 = out.len() - n1;
    ProgramSet {
        programs: finish(out),
        excluded: Default::default(),
        bounds: json!({"P1": {"N": 2, "k_max": k, "programs": n1, "width": if tier == Tier::Quick { "0..10" } else { "0..16" }, "precision": if tier == Tier::Quick { "none, 0..5" } else { "none, 0..8" }, "spec_forms": 17},
            "P2": {"enums": n2, "placeholders_per_literal_max": if tier == Tier::Quick { "2 (named), n+1 (tuple)" } else { "3 (named), 4 (tuple)" }, "spec_forms": FORMS, "separators": ["none", "text", "escaped braces adjacent"], "payload_assignments": 2}}),
    }
}
