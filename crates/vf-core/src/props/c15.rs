//! C15 — EnumProperty returns the declared value for (variant, key, type), else None.

use super::*;
use crate::devs::{dev, enumerate, Dev};
use crate::harness::Ctx;
use crate::refsem;
use crate::spec::*;
use serde_json::json;

pub fn def() -> PropDef {
    PropDef {
        id: "C15",
        mode: Mode::Run,
        programs,
        strum_features: &["derive"],
        profiles: &["dev"],
        rule: "programs: <=k deviations from the N-variant base: per variant up to 3 props(..) groups drawn from a pool whose keys {a, b, ab, A, type, fn} are shared across \
               variants and across types, values: strings (empty, non-ASCII), integers (0, 1, -1, i64::MIN(+1), i64::MAX), booleans; kind; disabled; attribute layout; no duplicate \
               (variant, key, type). inputs: every key declared anywhere, its case variants and prefixes, every string of length <= 2 over the key alphabet and \"\", through get_str, \
               get_int and get_bool on EVERY declared variant (disabled included). oracle: R-props. non-trivial = query that returns Some, or a declared key asked on another \
               variant / with another type; distinct per (program, variant, getter, key)",
        trusted_base: &["rustc", "generated constructors", "vf-core R-props"],
        assumptions: &[],
        required_outcomes: &["some-str", "some-int", "some-bool", "negative-int", "same-key-two-types", "other-variant-key-none", "disabled-none", "multi-group"],
    }
}

fn groups(tier: Tier) -> Vec<Vec<(&'static str, PropLit)>> {
    use PropLit::*;
    let mut g = vec![
        vec![("a", S("s".into()))],
        vec![("a", I(1))],
        vec![("b", B(true)), ("a", S("".into()))],
        vec![("ab", I(-1)), ("A", S("é".into()))],
        vec![("type", S("kw".into())), ("fn", I(i64::MAX))],
        vec![("a", B(false))],
        vec![("b", I(i64::MIN + 1)), ("ab", S("x".into()))],
        vec![("a", I(0)), ("b", S("t".into())), ("A", B(true))],
        // a raw-identifier key stands for the identifier without `r#`
        vec![("r#type", I(5)), ("r#plain", S("p".into()))],
        // the most negative value; keys whose byte length differs from their character count
        vec![("b", I(i64::MIN)), ("größe", I(42))],
        vec![("名前", S("n".into())), ("ñ", B(true)), ("a", I(7))],
        // values with characters that need escaping, with braces, and a value that looks like another key
        vec![("a", S("q\"b\\n".into())), ("b", S("{a} {{b}}".into())), ("ab", S("a".into()))],
        // plain keys that begin like the raw-identifier prefix (`r`, `rr`, `r_`), next to a real raw identifier
        vec![("region", S("eu".into())), ("rrate", I(3)), ("r", B(true)), ("r#ref", S("raw".into()))],
        // the WORD disabled inside props disables nothing
        vec![("state", S("disabled".into())), ("disabled_reason", S("x".into())), ("disabled", B(true))],
        // keys that a case style would rewrite: a key is the identifier as written, whatever serialize_all says
        vec![("Teacher", S("t".into())), ("maxStudents", I(30)), ("min_len", B(true))],
    ];
    if tier == Tier::Thorough {
        g.extend(vec![vec![("b", I(i64::MIN))], vec![("fn", B(true)), ("type", I(-7))], vec![("A", I(42))], vec![("ab", B(false)), ("a", S("a".into()))]]);
    }
    g
}

fn domain(s: &EnumSpec) -> bool {
    for v in &s.variants {
        let mut seen = std::collections::HashSet::new();
        for (k, l) in v.props.iter().flatten() {
            let k = crate::spec::unraw(k).to_string();
            let t = match l {
                PropLit::S(_) => 0,
                PropLit::I(_) => 1,
                PropLit::B(_) => 2,
            };
            if !seen.insert((k.clone(), t)) {
                return false;
            }
        }
    }
    true
}

fn alphabet(n: usize, tier: Tier) -> Vec<Dev> {
    let mut d: Vec<Dev> = Vec::new();
    for i in 0..n {
        for slot in 0..3 {
            for (gi, g) in groups(tier).into_iter().enumerate() {
                let g2: Vec<(String, PropLit)> = g.iter().map(|(k, v)| (k.to_string(), v.clone())).collect();
                d.push(dev(format!("v{}.props#{}{:?}", i, slot, g.iter().map(|x| x.0).collect::<Vec<_>>()).replace("\"", "") + &format!("g{}", gi), &[&format!("props{}_{}", i, slot)], move |s| {
                    // groups are appended in slot order; a later slot needs the earlier ones
                    if s.variants[i].props.len() != slot {
                        return false;
                    }
                    s.variants[i].props.push(g2.clone());
                    true
                }));
            }
        }
        d.push(dev(format!("v{}.kind=tuple1", i), &[&format!("kind{}", i)], move |s| {
            s.variants[i].kind = Kind::Tuple(vec![FieldTy::Str]);
            true
        }));
        d.push(dev(format!("v{}.kind=named1", i), &[&format!("kind{}", i)], move |s| {
            s.variants[i].kind = Kind::Named(vec![NamedField { name: "x".into(), ty: FieldTy::U8, default_with: false }]);
            true
        }));
        d.push(dev(format!("v{}.disabled", i), &[&format!("dis{}", i)], move |s| {
            s.variants[i].disabled = true;
            true
        }));
    }
    for i in 0..n {
        for (ln, l) in [("split", Layout::Split), ("reversed", Layout::Reversed)] {
            d.push(dev(format!("v{}.layout={}", i, ln), &[&format!("layout{}", i)], move |s| {
                if s.variants[i].props.len() + (s.variants[i].disabled as usize) < 2 {
                    return false;
                }
                s.variants[i].layout = l;
                true
            }));
        }
    }
    // EnumString's ascii_case_insensitive has no bearing on property keys
    d.push(dev("enum-level ascii_case_insensitive (does not apply to property keys)", &["aci"], |s| {
        s.aci = true;
        true
    }));
    for st in ["snake_case", "SCREAMING-KEBAB-CASE", "PascalCase"] {
        d.push(dev(format!("serialize_all={:?} (does not apply to property keys)", st), &["style"], move |s| {
            s.serialize_all = Some(st.to_string());
            true
        }));
    }
    d.extend(crate::devs::rich_generic_devs(true));
    d.extend(crate::devs::context_devs());
    d.extend(crate::devs::rebound_prelude_devs());
    d.extend(crate::devs::rare_shape_devs(n, true));
    d.extend(crate::devs::syntax_devs(true, true, true, false));
    d
}

pub fn programs(tier: Tier) -> ProgramSet {
    let plan: Vec<(usize, usize)> = match tier {
        Tier::Quick => vec![(2, 2), (3, 1)],
        Tier::Thorough => vec![(2, 3), (3, 2)],
    };
    let mut out = Vec::new();
    let mut excluded = 0u64;
    let mut seen = std::collections::HashSet::new();
    for (n, k) in &plan {
        let (specs, ex) = enumerate(&EnumSpec::base(*n), &format!("B{}", n), &alphabet(*n, tier), *k, &domain);
        excluded += ex as u64;
        for e in specs {
            if seen.insert(e.spec.clone()) {
                let source = render(&e.spec);
                out.push(Program { idx: 0, label: e.label, k: e.k, spec: e.spec, aux: json!(null), source });
            }
        }
    }
    // SCALE: one variant with many properties of every type; many variants with individual properties
    {
        let mut spec = EnumSpec::base(0);
        let mut big = VariantSpec::unit("Big");
        let mut g: Vec<(String, PropLit)> = Vec::new();
        for i in 0..24usize {
            let lit = match i % 3 {
                0 => PropLit::S(format!("v{}", i)),
                1 => PropLit::I(i as i64 * 1000 - 5000),
                _ => PropLit::B(i % 2 == 0),
            };
            g.push((format!("k{}", i), lit));
        }
        big.props = vec![g[..10].to_vec(), g[10..11].to_vec(), g[11..].to_vec()];
        spec.variants.push(big);
        // 13 properties of EACH type on one variant; key lengths 1..7, declared in an order that is neither alphabetical nor by length
        let keys = ["m", "zeta", "ab", "q1", "alphabet", "b", "abc", "zz", "k_long_key", "a", "mm", "abd", "y2k"];
        for (ti, name) in ["Strs", "Ints", "Bools", "Mixed"].iter().enumerate() {
            let mut v = VariantSpec::unit(name);
            let mut g: Vec<(String, PropLit)> = Vec::new();
            for (i, k) in keys.iter().enumerate() {
                match ti {
                    0 => g.push((k.to_string(), PropLit::S(format!("s-{}", k)))),
                    1 => g.push((k.to_string(), PropLit::I(i as i64 * 7 - 40))),
                    2 => g.push((k.to_string(), PropLit::B(i % 3 != 0))),
                    _ => {
                        // the same key with all three types
                        g.push((k.to_string(), PropLit::S(format!("x{}", i))));
                        g.push((k.to_string(), PropLit::I(-(i as i64))));
                        g.push((k.to_string(), PropLit::B(i % 2 == 0)));
                    }
                }
            }
            v.props = vec![g];
            spec.variants.push(v);
        }
        for i in 0..30usize {
            let mut v = VariantSpec::unit(&format!("P{}", i));
            if i % 4 != 3 {
                v.props = vec![vec![(format!("k{}", i % 5), PropLit::S(format!("p{}", i))), ("n".to_string(), PropLit::I(i as i64)), (format!("b{}", i % 2), PropLit::B(i % 3 == 0))]];
            }
            if i % 9 == 8 {
                v.disabled = true;
            }
            spec.variants.push(v);
        }
        if domain(&spec) {
            let source = render(&spec);
            out.push(Program { idx: 0, label: "SCALE: 24 properties on one variant (3 attribute groups), 30 more variants".into(), k: 1, spec, aux: json!(null), source });
        }
    }
    let mut ex = std::collections::BTreeMap::new();
    ex.insert("duplicate (variant, key, type)".to_string(), excluded);
    ProgramSet { programs: finish(out), excluded: ex, bounds: json!({"plan_(N,k)": plan, "group_pool": groups(tier).len(), "groups_per_variant_max": 3, "query_strings": "declared keys, case variants, prefixes, all strings <= 2 over {a,b,A,B,t,f,n,y}, \"\""}) }
}

pub fn render(spec: &EnumSpec) -> String {
    let mut o = String::new();
    o.push_str(&render_enum(spec, &["Debug", "strum::EnumProperty"]));
    o.push_str(&format!("type EC = {}{};\n", spec.name, spec.generics_inst()));
    o.push_str("pub fn run(ctx: &mut vf_core::Ctx) {\n    use strum::EnumProperty;\n    let vals: Vec<EC> = vec![\n");
    for i in 0..spec.variants.len() {
        o.push_str(&format!("        {},\n", render_default_value(spec, i)));
    }
    o.push_str(
        r#"    ];
    vf_core::props::c15::explore(ctx,
        // every getter is asked through the value, through a double reference (what iterator adaptors hand to closures) and
        // through a trait object; the three receivers must agree
        &mut |i: usize, k: &str| vf_core::guard(|| { let a = vals[i].get_str(k); let r = &&vals[i]; let b = r.get_str(k); let d: &dyn strum::EnumProperty = &vals[i]; let c = d.get_str(k); if a != b || b != c { panic!("receivers disagree: E {:?}, &&E {:?}, dyn {:?}", a, b, c) } a.map(String::from) }),
        &mut |i: usize, k: &str| vf_core::guard(|| { let a = vals[i].get_int(k); let r = &&vals[i]; let b = r.get_int(k); let d: &dyn strum::EnumProperty = &vals[i]; let c = d.get_int(k); if a != b || b != c { panic!("receivers disagree: E {:?}, &&E {:?}, dyn {:?}", a, b, c) } a }),
        &mut |i: usize, k: &str| vf_core::guard(|| { let a = vals[i].get_bool(k); let r = &&vals[i]; let b = r.get_bool(k); let d: &dyn strum::EnumProperty = &vals[i]; let c = d.get_bool(k); if a != b || b != c { panic!("receivers disagree: E {:?}, &&E {:?}, dyn {:?}", a, b, c) } a }));
}
"#,
    );
    o
}

pub fn queries(spec: &EnumSpec) -> Vec<String> {
    let mut q: Vec<String> = vec![String::new()];
    let mut push = |s: String, q: &mut Vec<String>| {
        if !q.contains(&s) {
            q.push(s);
        }
    };
    for v in &spec.variants {
        for (k, _) in v.props.iter().flatten() {
            push(k.clone(), &mut q);
            push(crate::spec::unraw(k).to_string(), &mut q);
            push(k.to_uppercase(), &mut q);
            push(k.to_lowercase(), &mut q);
            push(format!("{} ", k), &mut q);
            push(format!("r#{}", k), &mut q);
            for (j, _) in k.char_indices().skip(1) {
                push(k[..j].to_string(), &mut q);
            }
            push(format!("{}{}", k, k), &mut q);
        }
    }
    let sigma = ['a', 'b', 'A', 'B', 't', 'f', 'n', 'y'];
    for c in sigma {
        push(c.to_string(), &mut q);
        for d in sigma {
            push(format!("{}{}", c, d), &mut q);
        }
    }
    for k in ["type", "fn", "ab", "Ab", "aB"] {
        push(k.to_string(), &mut q);
    }
    q
}

type GS<'a> = &'a mut dyn FnMut(usize, &str) -> Result<Option<String>, String>;
type GI<'a> = &'a mut dyn FnMut(usize, &str) -> Result<Option<i64>, String>;
type GB<'a> = &'a mut dyn FnMut(usize, &str) -> Result<Option<bool>, String>;

pub fn explore(ctx: &mut Ctx, gs: GS, gi: GI, gb: GB) {
    let spec = ctx.spec().clone();
    let qs = queries(&spec);
    let declared: Vec<String> = spec.variants.iter().flat_map(|v| v.props.iter().flatten().map(|(k, _)| crate::spec::unraw(k).to_string())).collect();
    for (i, v) in spec.variants.iter().enumerate() {
        if v.props.len() > 1 {
            ctx.outcome("multi-group");
        }
        for k in &qs {
            ctx.state();
            ctx.transitions(3);
            let who = format!("variant {} ({}) key {:?}", i, v.ident, k);
            let (ws, wi, wb) = (refsem::prop_str(v, k), refsem::prop_int(v, k), refsem::prop_bool(v, k));
            let a = ctx.expect_eq("get_str", &who, &format!("{:?}", Ok::<_, String>(ws.clone())), &format!("{:?}", gs(i, k)));
            let b = ctx.expect_eq("get_int", &who, &format!("{:?}", Ok::<_, String>(wi)), &format!("{:?}", gi(i, k)));
            let c = ctx.expect_eq("get_bool", &who, &format!("{:?}", Ok::<_, String>(wb)), &format!("{:?}", gb(i, k)));
            let n_some = ws.is_some() as u8 + wi.is_some() as u8 + wb.is_some() as u8;
            if ws.is_some() {
                ctx.outcome("some-str");
            }
            if let Some(x) = wi {
                ctx.outcome("some-int");
                if x < 0 {
                    ctx.outcome("negative-int");
                }
            }
            if wb.is_some() {
                ctx.outcome("some-bool");
            }
            if n_some >= 2 {
                ctx.outcome("same-key-two-types");
            }
            let is_declared = declared.contains(k);
            if is_declared && n_some == 0 {
                ctx.outcome(if v.disabled { "disabled-none" } else { "other-variant-key-none" });
            }
            if (n_some > 0 || is_declared) && a && b && c {
                ctx.nontrivial(&(i, k.clone()));
            }
            if ctx.want_sample() && n_some >= 2 && ctx.program.idx % 29 == 0 {
                ctx.sample(json!({"program": ctx.program.label, "enum": render_enum(&spec, &["strum::EnumProperty"]), "query": who, "expected": [format!("{:?}", ws), format!("{:?}", wi), format!("{:?}", wb)]}));
            }
        }
    }
}
