//! C14 — EnumMessage returns exactly the per-variant message, detail, docs and spellings.

use super::*;
use crate::devs::{dev, enumerate, Dev};
use crate::harness::Ctx;
use crate::refsem;
use crate::spec::*;
use serde_json::json;

pub fn def() -> PropDef {
    PropDef {
        id: "C14",
        mode: Mode::Run,
        programs,
        strum_features: &["derive"],
        profiles: &["dev"],
        rule: "programs: <=k deviations from the N-variant base (N=2..3): per variant message, detailed_message, 1..4 doc lines drawn from {\"\", \" a\", \"  two\", \"a\", \" tab\\t\", \
               \" q\\\"uote\", \" é\"} as `///` comments and as #[doc = ..] attributes, kind, serialize / to_string, disabled, attribute layout; enum: serialize_all. Every declared variant \
               (disabled ones included) is constructed and queried through the four getters. oracle: R-msg, R-detail (detail else message), R-doc (one leading space stripped per line; \
               one line as is, several each + \\n), all None for disabled; get_serializations == R-spellings for every variant. non-trivial = variant with at least one of the attributes; \
               distinct per (program, variant, getter)",
        trusted_base: &["rustc (doc comment -> #[doc] desugaring)", "generated constructors", "vf-core R-msg / R-detail / R-doc / R-spellings"],
        assumptions: &[],
        required_outcomes: &["message", "detail-fallback", "doc-single", "doc-multi", "doc-two-leading-spaces", "disabled-none", "disabled-serializations"],
    }
}

fn doc_sets(tier: Tier) -> Vec<Vec<(&'static str, DocForm)>> {
    use DocForm::*;
    let mut v = vec![
        vec![(" a", Comment)],
        vec![("  two", Comment)],
        vec![("a", Comment)],
        vec![("", Comment)],
        vec![(" tab\t", Attr)],
        vec![(" q\"uote", Attr)],
        vec![(" a", Comment), (" b", Comment)],
        vec![("", Comment), ("  x", Comment)],
        vec![(" é", Comment), ("b", Attr), (" c", Comment)],
        vec![(" 1", Comment), ("", Comment), ("  3", Attr), ("4", Comment)],
        // first character is whitespace but not a space: only a SPACE is stripped
        vec![("\tx", Attr)],
        vec![("\u{a0}y", Attr), (" z", Comment)],
        // no leading space, but a space LATER in the line: only a leading one is removed
        vec![("Written as is", Attr)],
        vec![("Tight comment", Comment), (" then a b", Comment)],
        vec![(" two  inner  spaces ", Comment)],
        // doc attributes that are not documentation text, before / between / after the comments
        vec![("hidden", Marker), (" a", Comment), (" b", Comment)],
        vec![(" a", Comment), ("alias = \"x\"", Marker), (" b", Comment)],
        vec![("hidden", Marker)],
        // ONE doc attribute whose text spans several lines (what a multi-line block comment produces) is still one item
        vec![(" a\n b", Attr)],
        vec![(" x\ny", Attr), (" z", Comment)],
    ];
    if tier == Tier::Thorough {
        v.extend(vec![
            vec![(" é", Attr)],
            vec![("   three", Comment)],
            vec![(" a", Attr), (" b", Attr)],
            vec![("a\\n", Attr)],
            vec![(" x", Comment), (" x", Comment)],
        ]);
    }
    v
}

fn alphabet(n: usize, tier: Tier) -> Vec<Dev> {
    let mut d: Vec<Dev> = Vec::new();
    for i in 0..n {
        d.push(dev(format!("v{}.message", i), &[&format!("msg{}", i)], move |s| {
            s.variants[i].message = Some(format!("m{}", i));
            true
        }));
        // both in one deviation, so that attribute order (layout=reversed puts detailed_message first) is reachable at k = 2
        d.push(dev(format!("v{}.message+detailed_message", i), &[&format!("msg{}", i), &format!("det{}", i)], move |s| {
            s.variants[i].message = Some(format!("m{}", i));
            s.variants[i].detailed_message = Some(format!("d{} é", i));
            true
        }));
        // empty literals are still literals: Some("")
        d.push(dev(format!("v{}.message=\"\" + detailed_message=\"\"", i), &[&format!("msg{}", i), &format!("det{}", i)], move |s| {
            s.variants[i].message = Some(String::new());
            s.variants[i].detailed_message = Some(String::new());
            true
        }));
        d.push(dev(format!("v{}.message=\"tab\" + detailed_message=\"\"", i), &[&format!("msg{}", i), &format!("det{}", i)], move |s| {
            s.variants[i].message = Some("tab".into());
            s.variants[i].detailed_message = Some(String::new());
            true
        }));
        d.push(dev(format!("v{}.message / detailed_message with quote, backslash, braces, newline", i), &[&format!("msg{}", i), &format!("det{}", i)], move |s| {
            s.variants[i].message = Some("q\"b\\n {x} {{y}}".into());
            s.variants[i].detailed_message = Some("line1\nline2\t%s \\".into());
            true
        }));
        d.push(dev(format!("v{}.ascii_case_insensitive + serialize=[\"yes\", \"YES\"] + to_string=\"Yes\"", i), &[&format!("ser{}", i), &format!("tos{}", i)], move |s| {
            s.variants[i].aci = Some(Aci::Bare);
            s.variants[i].serialize = vec!["yes".into(), "YES".into()];
            s.variants[i].to_string = Some("Yes".into());
            true
        }));
        d.push(dev(format!("v{}.default(String) + serialize=[\"word\", \"WORD\"]", i), &[&format!("ser{}", i), &format!("kind{}", i), "default"], move |s| {
            s.variants[i].default = true;
            s.variants[i].kind = Kind::Tuple(vec![FieldTy::Str]);
            s.variants[i].serialize = vec!["word".into(), "WORD".into()];
            true
        }));
        d.push(dev(format!("v{}.default(String), no literal", i), &[&format!("kind{}", i), "default"], move |s| {
            s.variants[i].default = true;
            s.variants[i].kind = Kind::Tuple(vec![FieldTy::Str]);
            true
        }));
        d.push(dev(format!("v{}.detailed_message", i), &[&format!("det{}", i)], move |s| {
            s.variants[i].detailed_message = Some(format!("d{} é", i));
            true
        }));
        for (di, set) in doc_sets(tier).into_iter().enumerate() {
            let set2: Vec<(String, DocForm)> = set.iter().map(|(a, b)| (a.to_string(), b.clone())).collect();
            d.push(dev(format!("v{}.docs#{}{:?}", i, di, set.iter().map(|x| x.0).collect::<Vec<_>>()), &[&format!("doc{}", i)], move |s| {
                s.variants[i].docs = set2.clone();
                true
            }));
        }
        for (kn, kd) in [("tuple2", Kind::Tuple(vec![FieldTy::U8, FieldTy::Str])), ("named1", Kind::Named(vec![NamedField { name: "x".into(), ty: FieldTy::I32, default_with: false }]))] {
            d.push(dev(format!("v{}.kind={}", i, kn), &[&format!("kind{}", i)], move |s| {
                s.variants[i].kind = kd.clone();
                true
            }));
        }
        d.push(dev(format!("v{}.serialize=[\"z\",\"abc\"]", i), &[&format!("ser{}", i)], move |s| {
            s.variants[i].serialize = vec!["z".into(), "abc".into()];
            true
        }));
        d.push(dev(format!("v{}.to_string=\"Tt\"", i), &[&format!("tos{}", i)], move |s| {
            s.variants[i].to_string = Some("Tt".into());
            true
        }));
        // `disabled` written BEFORE the spellings in the same list: the keys after it still count (VARIANTS, get_serializations)
        d.push(dev(format!("v{}: #[strum(disabled, serialize = \"longer-one\", serialize = \"zq\")] (reversed list)", i), &[&format!("dis{}", i), &format!("ser{}", i), &format!("layout{}", i)], move |s| {
            s.variants[i].disabled = true;
            s.variants[i].serialize = vec!["zq".into(), "longer-one".into()];
            s.variants[i].layout = Layout::Reversed;
            true
        }));
        d.push(dev(format!("v{}.disabled", i), &[&format!("dis{}", i)], move |s| {
            s.variants[i].disabled = true;
            true
        }));
    }
    for st in ["kebab-case", "UPPERCASE"] {
        d.push(dev(format!("serialize_all={:?}", st), &["style"], move |s| {
            s.serialize_all = Some(st.to_string());
            true
        }));
    }
    // enum-level attributes that other derives read but that are NOT part of a spelling / message
    for pfx in ["p/", "é {"] {
        d.push(dev(format!("prefix={:?}", pfx), &["prefix"], move |s| {
            s.prefix = Some(pfx.to_string());
            true
        }));
    }
    d.push(dev("prefix=\"p/\" + serialize_all=\"snake_case\"", &["prefix", "style"], |s| {
        s.prefix = Some("p/".into());
        s.serialize_all = Some("snake_case".into());
        true
    }));
    d.push(dev("enum.ascii_case_insensitive", &["eaci"], |s| {
        s.aci = true;
        true
    }));
    for i in 0..n {
        for (ln, l) in [("split", Layout::Split), ("reversed", Layout::Reversed)] {
            d.push(dev(format!("v{}.layout={}", i, ln), &[&format!("layout{}", i)], move |s| {
                let v = &s.variants[i];
                let items = v.serialize.len() + v.to_string.is_some() as usize + v.disabled as usize + v.message.is_some() as usize + v.detailed_message.is_some() as usize;
                if items < 2 {
                    return false;
                }
                s.variants[i].layout = l;
                true
            }));
        }
    }
    d.extend(crate::devs::rich_generic_devs(true));
    d.extend(crate::devs::context_devs());
    d.extend(crate::devs::rebound_prelude_devs());
    d.extend(crate::devs::rare_shape_devs(n, true));
    d.extend(crate::devs::syntax_devs(true, false, true, true));
    d
}

pub fn programs(tier: Tier) -> ProgramSet {
    let plan: Vec<(usize, usize)> = match tier {
        Tier::Quick => vec![(3, 1), (2, 2)],
        Tier::Thorough => vec![(3, 2), (2, 3), (3, 3)],
    };
    let mut out = Vec::new();
    let mut seen = std::collections::HashSet::new();
    for (n, k) in &plan {
        let (specs, _) = enumerate(&EnumSpec::base(*n), &format!("B{}", n), &alphabet(*n, tier), *k, &|_| true);
        for e in specs {
            if seen.insert(e.spec.clone()) {
                let source = render(&e.spec);
                out.push(Program { idx: 0, label: e.label, k: e.k, spec: e.spec, aux: json!(null), source });
            }
        }
    }
    // SCALE: many variants each with its own metadata; one variant with many doc lines / serializations
    {
        let mut spec = EnumSpec::base(0);
        for i in 0..36usize {
            let mut v = VariantSpec::unit(&format!("V{}w", i));
            if i % 3 != 1 {
                v.message = Some(format!("message {}", i));
            }
            if i % 4 == 0 {
                v.detailed_message = Some(format!("detail {}", i));
            }
            if i % 5 != 0 {
                v.docs = (0..(i % 4 + 1)).map(|l| (format!(" doc {} line {}", i, l), if l % 2 == 0 { DocForm::Comment } else { DocForm::Attr })).collect();
            }
            if i % 6 == 3 {
                v.serialize = (0..(i / 6 + 1)).map(|j| format!("s{}x{}", i, j)).collect();
            }
            if i % 7 == 6 {
                v.disabled = true;
            }
            spec.variants.push(v);
        }
        let mut long = VariantSpec::unit("Long");
        long.docs = (0..24).map(|l| (if l % 5 == 4 { String::new() } else { format!(" line {:02}", l) }, DocForm::Comment)).collect();
        long.serialize = (0..20).map(|j| format!("long{}", j)).collect();
        long.message = Some("m".repeat(300));
        spec.variants.push(long);
        spec.prefix = Some("pre.".into());
        spec.serialize_all = Some("SCREAMING_SNAKE_CASE".into());
        let source = render(&spec);
        out.push(Program { idx: 0, label: "SCALE: 37 variants with individual metadata; 24 doc lines, 20 serializations, 300-char message".into(), k: 1, spec, aux: json!(null), source });
    }
    ProgramSet { programs: finish(out), excluded: Default::default(), bounds: json!({"plan_(N,k)": plan, "doc_line_sets": doc_sets(tier).len(), "scale": "37 variants; 24 doc lines; 20 serializations"}) }
}

pub fn render(spec: &EnumSpec) -> String {
    let mut o = String::new();
    o.push_str(&render_enum(spec, &["Debug", "strum::EnumMessage"]));
    o.push_str("pub fn run(ctx: &mut vf_core::Ctx) {\n    use strum::EnumMessage;\n    let mut obs: Vec<(usize, Option<String>, Option<String>, Option<String>, Vec<String>)> = Vec::new();\n");
    for i in 0..spec.variants.len() {
        let e = render_default_value(spec, i);
        o.push_str(&format!(
            "    {{ let v = {e}; obs.push(({i}, v.get_message().map(String::from), v.get_detailed_message().map(String::from), v.get_documentation().map(String::from), v.get_serializations().iter().map(|s| s.to_string()).collect())); }}\n",
            e = e,
            i = i
        ));
    }
    o.push_str("    vf_core::props::c14::check(ctx, obs);\n}\n");
    o
}

pub fn check(ctx: &mut Ctx, obs: Vec<(usize, Option<String>, Option<String>, Option<String>, Vec<String>)>) {
    let spec = ctx.spec().clone();
    ctx.state();
    for (i, m, d, doc, ser) in obs {
        let v = &spec.variants[i];
        let who = format!("variant {} ({})", i, v.ident);
        let has_attr = v.message.is_some() || v.detailed_message.is_some() || !v.docs.is_empty() || v.to_string.is_some() || !v.serialize.is_empty();
        ctx.transitions(4);
        let a = ctx.expect_eq("get_message", &who, &format!("{:?}", refsem::msg(v)), &format!("{:?}", m));
        let b = ctx.expect_eq("get_detailed_message", &who, &format!("{:?}", refsem::detail(v)), &format!("{:?}", d));
        let c = ctx.expect_eq("get_documentation", &who, &format!("{:?}", refsem::doc(v)), &format!("{:?}", doc));
        let e = ctx.expect_eq("get_serializations", &who, &format!("{:?}", refsem::as_set(&refsem::spellings(&spec, v))), &format!("{:?}", refsem::as_set(&ser)));
        if has_attr || v.disabled {
            for (ok, g) in [(a, "m"), (b, "d"), (c, "doc"), (e, "ser")] {
                if ok {
                    ctx.nontrivial(&(i, g));
                }
            }
        }
        if v.disabled {
            if has_attr {
                ctx.outcome("disabled-none");
            }
            ctx.outcome("disabled-serializations");
        } else {
            if v.message.is_some() {
                ctx.outcome("message");
                if v.detailed_message.is_none() {
                    ctx.outcome("detail-fallback");
                }
            }
            match v.docs.iter().filter(|(_, f)| *f != DocForm::Marker).count() {
                0 => {}
                1 => ctx.outcome("doc-single"),
                _ => ctx.outcome("doc-multi"),
            }
            if v.docs.iter().any(|(d, _)| d.starts_with("  ")) {
                ctx.outcome("doc-two-leading-spaces");
            }
        }
    }
    if ctx.want_sample() && ctx.program.idx % 67 == 0 {
        ctx.sample(json!({"program": ctx.program.label, "enum": render_enum(&spec, &["strum::EnumMessage"])}));
    }
}
