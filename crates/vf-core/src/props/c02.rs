//! C02 — printing a variant and parsing the result returns the same variant.

use super::strfam::*;
use super::*;
use crate::devs::enumerate;
use crate::harness::{Ctx, Obs};
use crate::refsem;
use crate::spec::*;
use serde_json::json;

pub fn def() -> PropDef {
    PropDef {
        id: "C02",
        mode: Mode::Run,
        programs,
        strum_features: &["derive"],
        profiles: &["dev"],
        rule: "programs: C01's domain without prefix, default and transparent variants, <=k deviations incl. ALL 16 style strings, serialize/to_string mixes, layouts, \
               case-insensitivity, kinds, generics; derives EnumString + Display + AsRefStr + IntoStaticStr + EnumMessage. For every enabled variant value: the strings printed by \
               Display, as_ref, From<&E> and every element of get_serializations() are parsed back; oracle: the parse returns the same variant index with default payloads, and \
               each printed string is a member of R-spellings(v) (so a wrong answer cannot cancel on both sides). non-trivial = variant with an explicit spelling or a style; \
               distinct per (program, variant, printed form)",
        trusted_base: &["rustc", "derived Debug", "generated vidx()/constructors", "vf-core R-spellings / R-case"],
        assumptions: &["payload fields are reset to defaults by the parser (C01), so values are built with default payloads"],
        required_outcomes: &["roundtrip-display", "roundtrip-serialization", "styled", "multi-spelling"],
    }
}

fn domain(s: &EnumSpec) -> bool {
    // a brace that is not part of an escaped pair would be a placeholder (or malformed); `{{` / `}}` are plain text of the name
    let unescaped = |x: &str| {
        let t = x.replace("{{", "").replace("}}", "");
        t.contains('{') || t.contains('}')
    };
    // the statement is about enums without a printing prefix (with one, the printed text is by design not a spelling)
    s.prefix.is_none() && parse_domain(s) && s.variants.iter().all(|v| !refsem::spellings(s, v).iter().any(|x| unescaped(x)))
}

pub fn programs(tier: Tier) -> ProgramSet {
    let mut styles = refsem::style_strings();
    styles.sort();
    let c = AlphaCfg {
        pool: if tier == Tier::Quick { vec!["x", "Xy", "é", "BbCc"] } else { let mut p = pool_full(); for e in [" x", "y ", "", "z\n"] { if !p.contains(&e) { p.push(e); } } p },
        pool_b: vec!["xy", "XY", " x", "y ", ""],
        kinds: true,
        disabled: true,
        default: false,
        default_with: false,
        aci: true,
        layouts: true,
        styles,
        enum_aci: true,
        generics: tier == Tier::Thorough,
        resize: false,
    };
    let (specs, ex) = enumerate(&EnumSpec::base(3), "B3", &alphabet(3, &c), 2, &domain);
    let mut out = Vec::new();
    let mut seen = std::collections::HashSet::new();
    for e in specs {
        if seen.insert(e.spec.clone()) {
            let source = render(&e.spec);
            out.push(Program { idx: 0, label: e.label, k: e.k, spec: e.spec, aux: json!(null), source });
        }
    }
    if tier == Tier::Thorough {
        // level 3 over a reduced alphabet that contains case twins (xy / XY / Xy)
        let c3 = AlphaCfg {
            pool: vec!["xy", "XY", "é"],
            pool_b: vec!["Xy", "x"],
            kinds: false,
            disabled: true,
            default: false,
            default_with: false,
            aci: true,
            layouts: false,
            styles: vec!["snake_case", "UPPERCASE"],
            enum_aci: true,
            generics: false,
            resize: false,
        };
        let (specs, _) = enumerate(&EnumSpec::base(2), "B2", &alphabet(2, &c3), 3, &domain);
        for e in specs {
            if seen.insert(e.spec.clone()) {
                let source = render(&e.spec);
                out.push(Program { idx: 0, label: e.label, k: e.k, spec: e.spec, aux: json!(null), source });
            }
        }
    }
    // names with ESCAPED braces on every variant kind (they are text, printed and parsed as written)
    for (kn, kind) in [("unit", Kind::Unit), ("tuple1", Kind::Tuple(vec![FieldTy::U8])), ("named2", Kind::Named(vec![NamedField { name: "x".into(), ty: FieldTy::U8, default_with: false }, NamedField { name: "y".into(), ty: FieldTy::Str, default_with: false }]))] {
        for (an, ser, tos) in [("serialize=\"a{{b}}\"", Some("a{{b}}"), None), ("to_string=\"{{x}}\"", None, Some("{{x}}")), ("serialize=\"}}{{\" + to_string=\"q{{\"", Some("}}{{"), Some("q{{"))] {
            let mut spec = EnumSpec::base(3);
            spec.variants[1].kind = kind.clone();
            if let Some(x) = ser {
                spec.variants[1].serialize = vec![x.to_string()];
            }
            spec.variants[1].to_string = tos.map(|t| t.to_string());
            if domain(&spec) && seen.insert(spec.clone()) {
                let source = render(&spec);
                out.push(Program { idx: 0, label: format!("B3 + v1.kind={} + v1.{}", kn, an), k: 2, spec, aux: json!(null), source });
            }
        }
    }
    // struct-variant fields named like the parameters and locals a generated fn might use (seed C02-u: the formatter
    // parameter renamed to `f`); no placeholder is involved, the field merely has to stay out of the generated code's way
    for names in [["f", "s"], ["fmt", "formatter"], ["value", "other"], ["e", "v"]] {
        for style in [None, Some("kebab-case")] {
            let mut spec = EnumSpec::base(3);
            spec.serialize_all = style.map(|s| s.to_string());
            spec.variants[1].kind = Kind::Named(vec![NamedField { name: names[0].into(), ty: FieldTy::U8, default_with: false }, NamedField { name: names[1].into(), ty: FieldTy::Str, default_with: false }]);
            spec.variants[2].kind = Kind::Named(vec![NamedField { name: names[1].into(), ty: FieldTy::U8, default_with: false }]);
            spec.variants[2].to_string = Some("shown".into());
            if domain(&spec) && seen.insert(spec.clone()) {
                let source = render(&spec);
                out.push(Program { idx: 0, label: format!("B3 + v1.kind=named{{{}, {}}} + v2.kind=named{{{}}} + v2.to_string=shown{}", names[0], names[1], names[1], if style.is_some() { " + serialize_all=kebab-case" } else { "" }), k: 2, spec, aux: json!(null), source });
            }
        }
    }
    for (spec, label) in scale_specs() {
        if domain(&spec) && seen.insert(spec.clone()) {
            let source = render(&spec);
            out.push(Program { idx: 0, label, k: 1, spec, aux: json!(null), source });
        }
    }
    let mut exm = std::collections::BTreeMap::new();
    exm.insert("overlapping spellings / braces in a name".to_string(), ex as u64);
    ProgramSet { programs: finish(out), excluded: exm, bounds: json!({"N": 3, "k_max": if tier == Tier::Quick { 2 } else { 3 }, "styles": 16, "level3": "N=2 over a reduced alphabet with case twins (thorough)"}) }
}

pub fn render(spec: &EnumSpec) -> String {
    let derives = ["Debug", "PartialEq", "strum::EnumString", "strum::Display", "strum::AsRefStr", "strum::IntoStaticStr", "strum::EnumMessage"];
    let mut body = String::from("let mut printed: Vec<(usize, &'static str, Result<Vec<String>, String>)> = Vec::new();\n");
    for (i, v) in spec.variants.iter().enumerate() {
        if v.disabled {
            continue;
        }
        let e = format!("vf_core::id::<EC>({})", render_default_value(spec, i));
        body.push_str(&format!("    printed.push(({i}, \"Display\", vf_core::guard(|| vec![format!(\"{{}}\", {e})])));\n", i = i, e = e));
        body.push_str(&format!("    printed.push(({i}, \"as_ref\", vf_core::guard(|| vec![AsRef::<str>::as_ref(&{e}).to_string()])));\n", i = i, e = e));
        body.push_str(&format!("    printed.push(({i}, \"From<&E>\", vf_core::guard(|| vec![<&'static str as From<&EC>>::from(&{e}).to_string()])));\n", i = i, e = e));
        body.push_str(&format!("    printed.push(({i}, \"get_serializations\", vf_core::guard(|| strum::EnumMessage::get_serializations(&{e}).iter().map(|s| s.to_string()).collect())));\n", i = i, e = e));
    }
    body.push_str("    vf_core::props::c02::check(ctx, printed, &mut from_str, &mut try_from);");
    render_parse_module(spec, &derives, &body)
}

pub fn check(ctx: &mut Ctx, printed: Vec<(usize, &'static str, Result<Vec<String>, String>)>, from_str: &mut dyn FnMut(&str) -> Obs, _try_from: &mut dyn FnMut(&str) -> Obs) {
    let spec = ctx.spec().clone();
    ctx.state();
    for (i, what, strs) in printed {
        let v = &spec.variants[i];
        let sp = refsem::spellings(&spec, v);
        let strs = match strs {
            Ok(s) => s,
            Err(m) => {
                ctx.violation(&format!("print-{}-panic", what), &format!("variant {} ({})", i, v.ident), "no panic", &m);
                continue;
            }
        };
        if what == "get_serializations" {
            // exactly the spelling list
            // "exactly the set of spellings": compared as sets
            ctx.expect_eq("get_serializations", &format!("variant {} ({})", i, v.ident), &format!("{:?}", refsem::as_set(&sp)), &format!("{:?}", refsem::as_set(&strs)));
            if sp.len() > 1 {
                ctx.outcome("multi-spelling");
            }
        }
        for s in &strs {
            ctx.transitions(2);
            // membership: the printed form is one of the declared spellings
            let member = sp.contains(s);
            ctx.eval();
            if !member {
                ctx.violation(&format!("printed-not-a-spelling-{}", what), &format!("variant {} ({})", i, v.ident), &format!("one of {:?}", sp), s);
            }
            let want = Obs::Ok(i, refsem::parsed_debug(v));
            let got = from_str(s);
            let ok = ctx.expect_eq(&format!("roundtrip-{}", what), &format!("from_str({:?}) printed for variant {} ({})", s, i, v.ident), &want.show(), &got.show());
            ctx.outcome(if what == "get_serializations" { "roundtrip-serialization" } else { "roundtrip-display" });
            let explicit = v.to_string.is_some() || !v.serialize.is_empty();
            if spec.serialize_all.is_some() && !explicit {
                ctx.outcome("styled");
            }
            if ok && member && (explicit || spec.serialize_all.is_some()) {
                ctx.nontrivial(&(i, what, s.clone()));
            }
        }
    }
    if ctx.want_sample() && ctx.program.idx % 83 == 0 {
        ctx.sample(json!({"program": ctx.program.label, "enum": render_enum(&spec, &["strum::EnumString", "strum::Display"])}));
    }
}
