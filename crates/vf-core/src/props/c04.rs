//! C04 — EnumIter yields every enabled variant exactly once, in declaration order.

use super::*;
use crate::devs::{dev, enumerate, Dev};
use crate::harness::Ctx;
use crate::refsem;
use crate::spec::*;
use serde_json::json;

pub fn def() -> PropDef {
    PropDef {
        id: "C04",
        mode: Mode::Run,
        programs,
        strum_features: &["derive"],
        profiles: &["dev"],
        rule: "programs: for N=0..Nmax variants, every subset of disabled positions x every set of <=k deviations \
               (variant kind in {tuple1,tuple2,named1,named2}, other strum attributes next to `disabled` in the same / a separate list, generics <T>, <U,V,const Y>, where-clause); per program the \
               forward traversal, the reverse traversal, count() and COUNT are compared with R-enabled. A case is \
               non-trivial when the program has a disabled variant, a data variant or a generic parameter; distinct = \
               distinct (program, traversal) pairs",
        trusted_base: &["rustc", "derived Debug", "generated vidx() match", "vf-core reference R-enabled"],
        assumptions: &["type parameters instantiated with u8, const parameters with 3"],
        required_outcomes: &["nonempty", "empty", "has-disabled", "has-data"],
    }
}

fn kinds() -> Vec<(&'static str, Kind)> {
    vec![
        ("tuple1", Kind::Tuple(vec![FieldTy::U8])),
        ("tuple2", Kind::Tuple(vec![FieldTy::Str, FieldTy::Bool])),
        ("named1", Kind::Named(vec![NamedField { name: "x".into(), ty: FieldTy::I32, default_with: false }])),
        (
            "named2",
            Kind::Named(vec![
                NamedField { name: "x".into(), ty: FieldTy::OptU8, default_with: false },
                NamedField { name: "y".into(), ty: FieldTy::Arr2, default_with: false },
            ]),
        ),
    ]
}

pub fn programs(tier: Tier) -> ProgramSet {
    let (nmax, k) = match tier {
        Tier::Quick => (4usize, 1usize),
        Tier::Thorough => (6usize, 2usize),
    };
    let mut out = Vec::new();
    for n in 0..=nmax {
        for mask in 0u32..(1 << n) {
            let mut base = EnumSpec::base(n);
            for i in 0..n {
                if mask & (1 << i) != 0 {
                    base.variants[i].disabled = true;
                }
            }
            let mut devs: Vec<Dev> = Vec::new();
            for i in 0..n {
                for (kn, kd) in kinds() {
                    let kd2 = kd.clone();
                    devs.push(dev(format!("v{}.kind={}", i, kn), &[&format!("kind{}", i)], move |s| {
                        s.variants[i].kind = kd2.clone();
                        true
                    }));
                }
            }
            // `default` belongs to EnumString: the catch-all variant is iterated like any other, with a Default payload
            for i in 0..n {
                devs.push(dev(format!("v{}.default(tuple String)", i), &[&format!("kind{}", i)], move |s| {
                    if s.variants.iter().any(|v| v.default) {
                        return false;
                    }
                    s.variants[i].default = true;
                    s.variants[i].kind = Kind::Tuple(vec![FieldTy::Str]);
                    true
                }));
            }
            // a DISABLED variant may carry a payload that has no Default at all (it is never constructed)
            for i in 0..n {
                devs.push(dev(format!("v{}(disabled).kind=tuple(Nd, &'static Nd) without Default", i), &[&format!("kind{}", i)], move |s| {
                    if !s.variants[i].disabled {
                        return false;
                    }
                    s.variants[i].kind = Kind::Tuple(vec![FieldTy::Nd, FieldTy::Raw("&'static vf_core::Nd".into(), "-".into())]);
                    true
                }));
            }
            // default_with belongs to EnumString: the iterated payload is still Default::default()
            for i in 0..n {
                devs.push(dev(format!("v{}(u8) with variant-level default_with", i), &[&format!("kind{}", i)], move |s| {
                    s.variants[i].kind = Kind::Tuple(vec![FieldTy::U8]);
                    s.variants[i].default_with = true;
                    true
                }));
                devs.push(dev(format!("v{} {{ x: i32 (default_with), y: String }}", i), &[&format!("kind{}", i)], move |s| {
                    s.variants[i].kind = Kind::Named(vec![NamedField { name: "x".into(), ty: FieldTy::I32, default_with: true }, NamedField { name: "y".into(), ty: FieldTy::Str, default_with: false }]);
                    true
                }));
            }
            // other strum attributes sharing the variant (and, with Layout::Single, the attribute list) with `disabled`
            for i in 0..n {
                devs.push(dev(format!("v{}.serialize=\"x\"+message", i), &[&format!("attr{}", i)], move |s| {
                    s.variants[i].serialize.push("x".into());
                    s.variants[i].message = Some("m".into());
                    true
                }));
                devs.push(dev(format!("v{}.to_string=\"t\" (split lists)", i), &[&format!("attr{}", i)], move |s| {
                    s.variants[i].to_string = Some("t".into());
                    s.variants[i].layout = Layout::Split;
                    true
                }));
            }
            for i in 0..n {
                devs.push(dev(format!("v{}: doc comment + #[allow(dead_code)]", i), &[&format!("nonstrum{}", i)], move |s| {
                    s.variants[i].docs.push((" documented".into(), DocForm::Comment));
                    s.variants[i].extra_attrs.push("#[allow(dead_code)]".into());
                    true
                }));
            }
            devs.push(dev("generic<T: Default>", &["gen"], |s| {
                s.generics = vec![Generic::Type { name: "T".into(), bounds: "Default".into() }];
                match s.variants.first_mut() {
                    Some(v) => v.kind = Kind::Tuple(vec![FieldTy::T]),
                    None => return false,
                }
                true
            }));
            devs.push(dev("generic<T: Default, U: Default, const Y: usize>", &["gen"], |s| {
                s.generics = vec![
                    Generic::Type { name: "T".into(), bounds: "Default".into() },
                    Generic::Type { name: "U".into(), bounds: "Default".into() },
                    Generic::Const { name: "Y".into() },
                ];
                if s.variants.len() < 2 {
                    return false;
                }
                s.variants[0].kind = Kind::Tuple(vec![FieldTy::T]);
                s.variants[1].kind = Kind::Named(vec![NamedField {
                    name: "u".into(),
                    ty: FieldTy::Raw("core::marker::PhantomData<[U; Y]>".into(), "PhantomData<[u8; 3]>".into()),
                    default_with: false,
                }]);
                true
            }));
            devs.push(dev("generic<T> where T: Default", &["gen"], |s| {
                s.generics = vec![Generic::Type { name: "T".into(), bounds: "".into() }];
                s.where_clause = Some("T: Default".into());
                if let Some(v) = s.variants.last_mut() {
                    v.kind = Kind::Tuple(vec![FieldTy::T]);
                } else {
                    return false;
                }
                true
            }));
            devs.extend(crate::devs::rich_generic_devs(false));
            devs.extend(crate::devs::syntax_devs(false, false, true, false).into_iter().filter(|d| d.label.contains("doc(hidden)")));
            devs.extend(crate::devs::context_devs());
            devs.extend(crate::devs::rare_shape_devs(n, true));
            let dis: Vec<String> = (0..n).filter(|i| mask & (1 << i) != 0).map(|i| i.to_string()).collect();
            let label = format!("B{} disabled={{{}}}", n, dis.join(","));
            let (specs, _) = enumerate(&base, &label, &devs, k, &|_| true);
            for e in specs {
                let source = render(&e.spec);
                out.push(Program { idx: 0, label: e.label, k: e.k, spec: e.spec, aux: json!(null), source });
            }
        }
    }
    // SCALE: large enums (thresholds at and around powers of two, 255/256/257), a few disabled and data variants
    for n in [9usize, 16, 17, 33, 65, 255, 256, 257, 300] {
        let mut spec = EnumSpec::base(0);
        for i in 0..n {
            let mut v = VariantSpec::unit(&format!("V{}", i));
            if i % 7 == 3 {
                v.disabled = true;
            }
            if i % 10 == 4 {
                v.kind = Kind::Tuple(vec![FieldTy::U8, FieldTy::Str, FieldTy::Bool, FieldTy::I32, FieldTy::OptU8, FieldTy::Arr2]);
            }
            spec.variants.push(v);
        }
        let source = render(&spec);
        out.push(Program { idx: 0, label: format!("SCALE: {} variants (every 7th disabled, every 10th with 6 fields)", n), k: 1, spec, aux: json!(null), source });
    }
    ProgramSet {
        programs: finish(out),
        excluded: Default::default(),
        bounds: json!({"N_max": nmax, "scale_N": [9, 16, 17, 33, 65, 255, 256, 257, 300], "disabled_subsets": "all 2^N", "k_max": k,
                        "kinds": ["unit","tuple1","tuple2","named1","named2"],
                        "generics": ["<T: Default>", "<T: Default, U: Default, const Y: usize>", "<T> where T: Default"]}),
    }
}

pub fn render(spec: &EnumSpec) -> String {
    let mut o = String::new();
    o.push_str(&render_enum(spec, &["Debug", "strum::EnumIter", "strum::EnumCount"]));
    o.push_str(&format!("type EC = {}{};\n", spec.name, spec.generics_inst()));
    o.push_str(&render_dw_helpers(spec, "u8"));
    o.push_str(&render_vidx(spec, "EC", "vidx"));
    o.push_str("#[allow(dead_code)]\nfn _generic_walk<E: strum::IntoEnumIterator>() -> usize { let mut it = E::iter(); let _ = it.next_back(); E::iter().rev().count() + it.len() }\n#[allow(dead_code)]\nfn _generic_walk_used() -> usize { _generic_walk::<EC>() }\n");
    o.push_str(
        r#"pub fn run(ctx: &mut vf_core::Ctx) {
    use strum::IntoEnumIterator;
    let lim = 1024usize;
    let fwd = vf_core::guard(|| EC::iter().take(lim).map(|v| (vidx(&v), format!("{:?}", v))).collect::<Vec<_>>());
    let rev = vf_core::guard(|| EC::iter().rev().take(lim).map(|v| (vidx(&v), format!("{:?}", v))).collect::<Vec<_>>());
    let cnt = vf_core::guard(|| EC::iter().take(lim).count());
    let count_const = <EC as strum::EnumCount>::COUNT;
    // the same two walks through internal iteration (fold / rfold / for_each / last, which an iterator may override)
    let others: Vec<(&'static str, bool, Result<Vec<(usize, String)>, String>)> = vec![
        ("E::iter().fold(..)", false, vf_core::guard(|| EC::iter().fold(Vec::new(), |mut a, v| { if a.len() < lim { a.push((vidx(&v), format!("{:?}", v))); } a }))),
        ("E::iter().for_each(..)", false, vf_core::guard(|| { let mut a = Vec::new(); EC::iter().for_each(|v| if a.len() < lim { a.push((vidx(&v), format!("{:?}", v))) }); a })),
        ("for v in E::iter()", false, vf_core::guard(|| { let mut a = Vec::new(); for v in EC::iter() { if a.len() >= lim { break; } a.push((vidx(&v), format!("{:?}", v))); } a })),
        ("E::iter().rfold(..)", true, vf_core::guard(|| EC::iter().rfold(Vec::new(), |mut a, v| { if a.len() < lim { a.push((vidx(&v), format!("{:?}", v))); } a }))),
        ("E::iter().rev().for_each(..)", true, vf_core::guard(|| { let mut a = Vec::new(); EC::iter().rev().for_each(|v| if a.len() < lim { a.push((vidx(&v), format!("{:?}", v))) }); a })),
        ("E::iter().rev().fold(..)", true, vf_core::guard(|| EC::iter().rev().fold(Vec::new(), |mut a, v| { if a.len() < lim { a.push((vidx(&v), format!("{:?}", v))); } a }))),
        ("last of E::iter() / of E::iter().rev()", false, vf_core::guard(|| { let mut a: Vec<(usize, String)> = EC::iter().map(|v| (vidx(&v), format!("{:?}", v))).collect(); let l = EC::iter().last().map(|v| (vidx(&v), format!("{:?}", v))); let f = EC::iter().rev().last().map(|v| (vidx(&v), format!("{:?}", v))); if l != a.last().cloned() || f != a.first().cloned() { a.push((usize::MAX, format!("last() = {:?}, rev().last() = {:?}", l, f))); } a.truncate(lim + 1); a })),
    ];
    vf_core::props::c04::check(ctx, fwd, rev, cnt, count_const);
    vf_core::props::c04::check_others(ctx, others);
}
"#,
    );
    o
}

type Trav = Result<Vec<(usize, String)>, String>;

fn show(t: &Trav) -> String {
    match t {
        Ok(v) => format!("{:?}", v),
        Err(m) => format!("PANIC({})", m),
    }
}

pub fn check_others(ctx: &mut Ctx, others: Vec<(&'static str, bool, Trav)>) {
    let spec = ctx.spec().clone();
    let en = refsem::enabled(&spec);
    let expect: Vec<(usize, String)> = en.iter().map(|&i| (i, refsem::default_debug(&spec.variants[i]))).collect();
    let mut expect_rev = expect.clone();
    expect_rev.reverse();
    for (what, reversed, got) in others {
        ctx.transition();
        let want = if reversed { &expect_rev } else { &expect };
        if ctx.expect_eq(if reversed { "iter-reverse-internal" } else { "iter-forward-internal" }, what, &format!("{:?}", want), &show(&got)) && en.len() >= 2 {
            ctx.nontrivial(&what);
        }
    }
}

pub fn check(ctx: &mut Ctx, fwd: Trav, rev: Trav, cnt: Result<usize, String>, count_const: usize) {
    let spec = ctx.spec().clone();
    let en = refsem::enabled(&spec);
    let expect: Vec<(usize, String)> =
        en.iter().map(|&i| (i, refsem::default_debug(&spec.variants[i]))).collect();
    let mut expect_rev = expect.clone();
    expect_rev.reverse();
    ctx.state();
    let nontrivial = spec.variants.iter().any(|v| v.disabled || !v.kind.is_unit()) || !spec.generics.is_empty();
    ctx.outcome(if en.is_empty() { "empty" } else { "nonempty" });
    if spec.variants.iter().any(|v| v.disabled) {
        ctx.outcome("has-disabled");
    }
    if spec.variants.iter().any(|v| !v.kind.is_unit()) {
        ctx.outcome("has-data");
    }
    let e = format!("{:?}", expect);
    ctx.transition();
    if ctx.expect_eq("iter-forward", "E::iter().collect()", &e, &show(&fwd)) && nontrivial {
        ctx.nontrivial(&"fwd");
    }
    ctx.transition();
    if ctx.expect_eq("iter-reverse", "E::iter().rev().collect()", &format!("{:?}", expect_rev), &show(&rev)) && nontrivial {
        ctx.nontrivial(&"rev");
    }
    ctx.transition();
    let c = match &cnt {
        Ok(c) => c.to_string(),
        Err(m) => format!("PANIC({})", m),
    };
    if ctx.expect_eq("iter-count", "E::iter().count()", &en.len().to_string(), &c) && nontrivial {
        ctx.nontrivial(&"count");
    }
    ctx.transition();
    if ctx.expect_eq("COUNT", "<E as EnumCount>::COUNT", &en.len().to_string(), &count_const.to_string()) && nontrivial {
        ctx.nontrivial(&"COUNT");
    }
    if ctx.want_sample() && nontrivial && ctx.program.idx % 37 == 0 {
        ctx.sample(json!({"program": ctx.program.label, "enum": render_enum(&spec, &["strum::EnumIter", "strum::EnumCount"]),
            "call": "E::iter().collect()", "expected": e, "observed": show(&fwd)}));
    }
}
