//! C09 — EnumDiscriminants mirrors the enum: same variants, order, repr, discriminants.

use super::c06::{disc_value, discriminants, repr_range};
use super::*;
use crate::devs::{dev, enumerate, Dev};
use crate::harness::Ctx;
use crate::refsem;
use crate::spec::*;
use serde_json::json;

pub fn def() -> PropDef {
    PropDef {
        id: "C09",
        mode: Mode::Run,
        programs,
        strum_features: &["derive"],
        profiles: &["dev"],
        rule: "programs: <=k deviations from the N-variant base (N=1..3; the enum lives in a nested module, the harness in its parent): variant kind, explicit discriminants (gap, \
               expression, negative, descending, const), repr, generics <T>, <'a>, where-clause, the enum's own visibility, strum_discriminants(name / vis(pub | pub(crate) | \
               pub(super)) / derive(Hash, PartialOrd, Ord) / derive(EnumIter, EnumString, Display, EnumMessage) with enum- and variant-level pass-through strum attributes / doc). \
               inputs: every variant constructed with two payload assignments (incl. extremes, empty and non-ASCII strings). oracle: From<E>, From<&E> and (when the visibility override \
               is absent or pub) discriminant() return the variant with e's name whose integer value equals the reference discriminant (rustc's rule); size_of/align_of equal a hand-written \
               field-less enum with the same repr and values; requested derives and pass-through attributes are observable on the generated type under its possibly overridden name from \
               outside the defining module. non-trivial = every conversion on an enum with data, an explicit discriminant, a repr or an override; distinct per (program, value, conversion)",
        trusted_base: &["rustc (`as` casts of field-less enums, size_of/align_of)", "derived Debug", "generated constructors", "vf-core R-disc / R-case"],
        assumptions: &["type parameter instantiated with u8, lifetime with 'static"],
        required_outcomes: &["from-value", "from-ref", "discriminant()", "explicit-discriminant-preserved", "repr-layout", "renamed", "vis-restricted", "derive-effects", "passthrough-effects"],
    }
}

fn alphabet(n: usize, tier: Tier) -> Vec<Dev> {
    let th = tier == Tier::Thorough;
    let mut d: Vec<Dev> = Vec::new();
    for i in 0..n {
        for (kn, kd) in [
            ("tuple1", Kind::Tuple(vec![FieldTy::U8])),
            ("tuple2", Kind::Tuple(vec![FieldTy::Str, FieldTy::Bool])),
            ("named1", Kind::Named(vec![NamedField { name: "x".into(), ty: FieldTy::I32, default_with: false }])),
        ] {
            d.push(dev(format!("v{}.kind={}", i, kn), &[&format!("kind{}", i)], move |s| {
                s.variants[i].kind = kd.clone();
                true
            }));
        }
        let mut choices: Vec<String> = vec![format!("{}", 5 * (i + 1) + 2), "1 + 2".into(), format!("-{}", 3 + i), format!("{}", 40 - 7 * i)];
        if th {
            choices.extend(["K10".to_string(), "1 << 2".into(), "127".into(), "-128".into()]);
        }
        for c in choices {
            let c2 = c.clone();
            d.push(dev(format!("v{} = {}", i, c), &[&format!("disc{}", i)], move |s| {
                s.variants[i].disc = Some(c2.clone());
                true
            }));
        }
        // explicit discriminant on a data-carrying variant (rustc requires a primitive repr for that)
        d.push(dev(format!("repr(u8) + v{}(u8) = {}", i, 16 + i), &[&format!("kind{}", i), &format!("disc{}", i), "repr"], move |s| {
            s.repr = Some("u8".into());
            s.variants[i].kind = Kind::Tuple(vec![FieldTy::U8]);
            s.variants[i].disc = Some(format!("{}", 16 + i));
            true
        }));
        d.push(dev(format!("repr(i16) + v{} {{ x: i32 }} = -{}", i, 300 + i), &[&format!("kind{}", i), &format!("disc{}", i), "repr"], move |s| {
            s.repr = Some("i16".into());
            s.variants[i].kind = Kind::Named(vec![NamedField { name: "x".into(), ty: FieldTy::I32, default_with: false }]);
            s.variants[i].disc = Some(format!("-{}", 300 + i));
            true
        }));
        d.push(dev(format!("v{}: strum_discriminants(strum(message = \"dm{}\"))", i, i), &[&format!("dmsg{}", i), "dd"], move |s| {
            s.variants[i].extra_attrs.push(format!("#[strum_discriminants(strum(message = \"dm{}\"))]", i));
            if !s.extra_attrs.iter().any(|a| a.contains("EnumMessage")) {
                s.extra_attrs.push("#[strum_discriminants(derive(strum::EnumMessage))]".into());
            }
            true
        }));
    }
    let reprs: Vec<&str> = if th { vec!["u8", "i8", "u16", "i16", "u32", "i64", "usize", "isize"] } else { vec!["u8", "i8", "u16", "i64"] };
    for r in reprs {
        d.push(dev(format!("repr({})", r), &["repr"], move |s| {
            s.repr = Some(r.to_string());
            true
        }));
    }
    // (`repr(C, u8)` cannot be copied to a field-less enum: rustc rejects the combination there)
    for r in ["align(4), u8", "u8;align(2)", "align(2);i8", "C", "C, align(8)"] {
        d.push(dev(format!("repr({})", r.replace(';', ")] #[repr(")), &["repr"], move |s| {
            s.repr = Some(r.to_string());
            true
        }));
    }
    d.push(dev("generic<T>", &["gen", "kind0"], |s| {
        s.generics = vec![Generic::Type { name: "T".into(), bounds: "".into() }];
        s.variants[0].kind = Kind::Tuple(vec![FieldTy::T]);
        true
    }));
    d.push(dev("generic<'a>", &["gen", "kind0"], |s| {
        s.generics = vec![Generic::Lifetime { name: "a".into() }];
        s.variants[0].kind = Kind::Tuple(vec![FieldTy::LStr]);
        true
    }));
    d.push(dev("generic<T> where T: Clone", &["gen", "kind0"], |s| {
        s.generics = vec![Generic::Type { name: "T".into(), bounds: "".into() }];
        s.where_clause = Some("T: Clone".into());
        s.variants[0].kind = Kind::Named(vec![NamedField { name: "t".into(), ty: FieldTy::T, default_with: false }]);
        true
    }));
    d.extend(crate::devs::rich_generic_devs(true));
    d.extend(crate::devs::rare_shape_devs(n, true));
    d.extend(crate::devs::rebound_prelude_devs());
    d.extend(crate::devs::context_devs().into_iter().filter(|d| d.label.contains("inherent methods")));
    d.extend(crate::devs::syntax_devs(false, false, true, false).into_iter().filter(|d| d.label.contains("doc(hidden)")));
    for v in ["pub(crate)", "pub(super)"] {
        d.push(dev(format!("enum vis {}", v), &["evis"], move |s| {
            s.vis = v.to_string();
            true
        }));
    }
    d.push(dev("strum_discriminants(name(Dx))", &["dname"], |s| {
        s.extra_attrs.push("#[strum_discriminants(name(Dx))]".into());
        true
    }));
    // `vis()` / `vis(pub(self))`: an explicitly PRIVATE generated type next to a visible enum
    for v in ["pub", "pub(crate)", "pub(super)", "", "pub(self)"] {
        d.push(dev(format!("strum_discriminants(vis({}))", v), &["dvis"], move |s| {
            s.extra_attrs.push(format!("#[strum_discriminants(vis({}))]", v));
            true
        }));
    }
    d.push(dev("strum_discriminants(derive(Hash, PartialOrd, Ord))", &["dder1"], |s| {
        s.extra_attrs.push("#[strum_discriminants(derive(Hash, PartialOrd, Ord))]".into());
        true
    }));
    d.push(dev("strum_discriminants(derive(EnumIter, EnumString, Display), strum(serialize_all = \"snake_case\"))", &["dd"], |s| {
        s.extra_attrs.push("#[strum_discriminants(derive(strum::EnumIter, strum::EnumString, strum::Display), strum(serialize_all = \"snake_case\"))]".into());
        true
    }));
    // derives that reach the generated enum only through a passed-through attribute, together with a variant-level pass-through
    // several pass-through items with the SAME path (strum(..) twice), in one attribute and spread over three
    d.push(dev("strum_discriminants(derive(Display), strum(serialize_all = \"snake_case\"), strum(prefix = \"p/\")) in one attribute", &["dd"], |s| {
        s.extra_attrs.push("#[strum_discriminants(derive(strum::Display), strum(serialize_all = \"snake_case\"), strum(prefix = \"p/\"))]".into());
        true
    }));
    d.push(dev("strum_discriminants: derive(Display) / strum(prefix = \"p/\") / strum(serialize_all = \"snake_case\") in three attributes", &["dd"], |s| {
        s.extra_attrs.push("#[strum_discriminants(derive(strum::Display))]".into());
        s.extra_attrs.push("#[strum_discriminants(strum(prefix = \"p/\"))]".into());
        s.extra_attrs.push("#[strum_discriminants(strum(serialize_all = \"snake_case\"))]".into());
        true
    }));
    // variant-level pass-through of a BARE PATH and of a NAME = VALUE attribute (the enum-level parser only takes lists)
    d.push(dev("strum_discriminants(derive(Default)) + last variant: #[strum_discriminants(default)] + #[strum_discriminants(doc = \"d\")]", &["dder2"], |s| {
        s.extra_attrs.push("#[strum_discriminants(derive(Default))]".into());
        let n = s.variants.len();
        s.variants[n - 1].extra_attrs.push("#[strum_discriminants(default)]".into());
        s.variants[n - 1].extra_attrs.push("#[strum_discriminants(doc = \"d\")]".into());
        true
    }));
    // the MAIN enum derives std's Default with `#[default]` on its first variant: a helper attribute of another derive, which
    // must not reach the generated enum (alone, and next to a requested Default for the discriminants with its own default)
    d.push(dev("main enum: derive(::core::default::Default) + #[default] on v0", &["mdef", "kind0"], |s| {
        // (with a single variant the foreign-attribute deviation would put #[non_exhaustive] on the #[default] variant, which
        // rustc itself rejects)
        if !s.variants[0].kind.is_unit() || !s.generics.is_empty() || s.variants.len() < 2 {
            return false;
        }
        s.extra_attrs.push("#[derive(::core::default::Default)]".into());
        s.variants[0].extra_attrs.push("#[default]".into());
        true
    }));
    d.push(dev("strum_discriminants(::core::prelude::v1::derive(PartialOrd)) (pass-through attribute named by a path)", &["dder1"], |s| {
        s.extra_attrs.push("#[strum_discriminants(::core::prelude::v1::derive(PartialOrd))]".into());
        true
    }));
    d.push(dev("strum_discriminants(cfg_attr(all(), derive(EnumMessage))) + v0 pass-through message", &["dd", "dmsg0"], |s| {
        s.extra_attrs.push("#[strum_discriminants(cfg_attr(all(), derive(strum::EnumMessage)))]".into());
        s.variants[0].extra_attrs.push("#[strum_discriminants(strum(message = \"dm0\"))]".into());
        true
    }));
    // two separate derive lists whose paths end in the same segment but name different macros
    d.push(dev("two strum_discriminants(derive(..)) lists: strum::Display and alias::Display (= strum::EnumCount)", &["dd"], |s| {
        s.extra_attrs.push("#[strum_discriminants(derive(strum::Display))]".into());
        s.extra_attrs.push("#[strum_discriminants(derive(super::alias::Display))]".into());
        true
    }));
    d.push(dev("strum_discriminants(doc = \"docs\")", &["ddoc"], |s| {
        s.extra_attrs.push("#[strum_discriminants(doc = \"docs\")]".into());
        true
    }));
    d
}

fn in_domain(s: &EnumSpec) -> bool {
    let ds = match discriminants(s) {
        Some(d) => d,
        None => return false,
    };
    let (lo, hi) = if super::c06::has_int_repr(s) { repr_range(&super::c06::repr_of(s)) } else { (isize::MIN as i128, isize::MAX as i128) };
    if ds.iter().any(|d| *d < lo || *d > hi) {
        return false;
    }
    let mut u = ds.clone();
    u.sort();
    u.dedup();
    if u.len() != ds.len() {
        return false;
    }
    let has_data = s.variants.iter().any(|v| !v.kind.is_unit());
    let has_explicit = s.variants.iter().any(|v| v.disc.is_some());
    if has_data && has_explicit && !super::c06::has_int_repr(s) {
        return false;
    }
    if !super::c06::has_int_repr(s) && s.variants.iter().any(|v| v.disc.as_deref().map(|d| d.contains('K')).unwrap_or(false)) {
        return false;
    }
    true
}

pub fn programs(tier: Tier) -> ProgramSet {
    let plan: Vec<(usize, usize)> = match tier {
        Tier::Quick => vec![(1, 2), (3, 1), (2, 2)],
        Tier::Thorough => vec![(1, 3), (3, 2), (2, 3), (3, 3), (4, 1)],
    };
    let mut out = Vec::new();
    let mut excluded = 0u64;
    let mut seen = std::collections::HashSet::new();
    for (n, k) in &plan {
        let (specs, ex) = enumerate(&EnumSpec::base(*n), &format!("B{}", n), &alphabet(*n, tier), *k, &in_domain);
        excluded += ex as u64;
        for e in specs {
            if seen.insert(e.spec.clone()) {
                let source = render(&e.spec);
                out.push(Program { idx: 0, label: e.label, k: e.k, spec: e.spec, aux: json!(null), source });
            }
        }
    }
    // SCALE: 40 variants of every kind; explicit discriminants re-anchor the chain several times
    for (repr, data) in [(Some("i16"), false), (None, true), (Some("u8"), true)] {
        let mut spec = EnumSpec::base(0);
        spec.repr = repr.map(|r: &str| r.to_string());
        let tys = [FieldTy::U8, FieldTy::I32, FieldTy::Bool];
        for i in 0..40usize {
            let mut v = VariantSpec::unit(&format!("V{}", (i * 17) % 41));
            if data {
                match i % 4 {
                    1 => v.kind = Kind::Tuple(vec![tys[i % 3].clone()]),
                    2 => v.kind = Kind::Named(vec![NamedField { name: "a".into(), ty: tys[i % 3].clone(), default_with: false }, NamedField { name: "b".into(), ty: FieldTy::U8, default_with: false }]),
                    _ => {}
                }
            }
            if repr.is_some() && i % 13 == 5 {
                v.disc = Some(format!("{}", 60 + i * 3));
            }
            spec.variants.push(v);
        }
        if in_domain(&spec) {
            let source = render(&spec);
            out.push(Program { idx: 0, label: format!("SCALE: 40 variants, repr {:?}, data {}", repr, data), k: 1, spec, aux: json!(null), source });
        }
    }
    let mut ex = std::collections::BTreeMap::new();
    ex.insert("duplicate / out-of-range discriminant, explicit discriminant on data enum without repr".to_string(), excluded);
    ProgramSet { programs: finish(out), excluded: ex, bounds: json!({"plan_(N,k)": plan, "payload_assignments": 2}) }
}

fn dname(spec: &EnumSpec) -> String {
    if spec.extra_attrs.iter().any(|a| a.contains("name(Dx)")) {
        "Dx".into()
    } else {
        format!("{}Discriminants", spec.name)
    }
}

/// Some(vis) when overridden
fn dvis(spec: &EnumSpec) -> Option<String> {
    for a in &spec.extra_attrs {
        if let Some(p) = a.find("vis(") {
            let rest = &a[p + 4..];
            // up to the matching ")" of vis( .. ) — the argument may itself contain parentheses
            let mut depth = 1;
            let mut end = 0;
            for (i, c) in rest.char_indices() {
                if c == '(' {
                    depth += 1;
                } else if c == ')' {
                    depth -= 1;
                    if depth == 0 {
                        end = i;
                        break;
                    }
                }
            }
            return Some(rest[..end].to_string());
        }
    }
    None
}

fn payload(ty: &FieldTy, j: usize) -> String {
    match (ty, j) {
        (FieldTy::U8, 0) | (FieldTy::T, 0) => "0".into(),
        (FieldTy::U8, _) | (FieldTy::T, _) => "255".into(),
        (FieldTy::Bool, 0) => "false".into(),
        (FieldTy::Bool, _) => "true".into(),
        (FieldTy::I32, 0) => "i32::MIN".into(),
        (FieldTy::I32, _) => "7".into(),
        (FieldTy::Str, 0) => "String::new()".into(),
        (FieldTy::Str, _) => "String::from(\"é\")".into(),
        (FieldTy::LStr, 0) | (FieldTy::SStr, 0) => "\"\"".into(),
        (FieldTy::LStr, _) | (FieldTy::SStr, _) => "\"é\"".into(),
        _ => "Default::default()".into(),
    }
}

pub fn render(spec: &EnumSpec) -> String {
    let dn = dname(spec);
    let emits_trait = matches!(dvis(spec).as_deref(), None | Some("pub"));
    let mut inner = String::new();
    let r = if super::c06::has_int_repr(spec) { Some(super::c06::repr_of(spec)) } else { None };
    for x in &spec.variants {
        if let Some(d) = &x.disc {
            for tok in d.split(|c: char| !c.is_alphanumeric()) {
                if tok.starts_with('K') {
                    inner.push_str(&format!("const {}: {} = {};\n", tok, r.clone().unwrap_or("isize".into()), disc_value(tok).unwrap()));
                }
            }
        }
    }
    inner.push_str(&render_enum(spec, &["Debug", "Clone", "strum::EnumDiscriminants"]));
    // visibility probe: an inherent constant on the generated type; a block-local glob import of `inner::*` shadows the probe's own
    // type of the same name iff the generated type is visible from outside `inner`
    inner.push_str(&format!("impl {} {{ pub const VF_ORIGIN: &'static str = \"generated\"; }}\n", dn));
    let private = matches!(dvis(spec).as_deref(), Some("") | Some("pub(self)"));
    let head = format!(
        "mod alias {{ pub use strum::EnumCount as Display; }}\n#[allow(dead_code, unused_imports)]\nfn vf_vis_probe() -> &'static str {{\n    struct {dn};\n    impl {dn} {{ const VF_ORIGIN: &'static str = \"local\"; }}\n    {{\n        use self::inner::*;\n        {dn}::VF_ORIGIN\n    }}\n}}\n",
        dn = dn
    );
    let mut o = format!("mod inner {{\n{}}}\n", inner);
    o.push_str(&format!("type EC = inner::{}{};\ntype DC = inner::{};\n", spec.name, spec.generics_inst(), dn));
    // hand-written reference enum with the same repr and discriminants
    if let Some(r) = &spec.repr {
        for part in r.split(';') {
            o.push_str(&format!("#[repr({})]\n", part.trim()));
        }
    }
    o.push_str("#[derive(Clone, Copy)]\nenum RefD {\n");
    for x in &spec.variants {
        match &x.disc {
            Some(d) => {
                let dd = if d.contains('K') { disc_value(d).unwrap().to_string() } else { d.clone() };
                o.push_str(&format!("    {} = {},\n", x.ident, dd))
            }
            None => o.push_str(&format!("    {},\n", x.ident)),
        }
    }
    o.push_str("}\n");
    o.push_str("pub fn run(ctx: &mut vf_core::Ctx) {\n    let mut obs: Vec<(usize, usize, &'static str, String, i128)> = Vec::new();\n");
    let mut qual = spec.clone();
    qual.name = format!("inner::{}", spec.name);
    for (vi, v) in spec.variants.iter().enumerate() {
        let ftys: Vec<FieldTy> = match &v.kind {
            Kind::Unit => vec![],
            Kind::Tuple(f) => f.clone(),
            Kind::Named(f) => f.iter().map(|x| x.ty.clone()).collect(),
        };
        for j in 0..2usize {
            if j == 1 && ftys.is_empty() {
                continue;
            }
            let fx: Vec<String> = ftys.iter().map(|t| payload(t, j)).collect();
            let ctor = format!("vf_core::id::<EC>({})", render_ctor(&qual, vi, &fx));
            o.push_str(&format!("    {{ let e = {ctor}; let d: DC = <DC as From<&EC>>::from(&e); obs.push(({vi}, {j}, \"From<&E>\", format!(\"{{:?}}\", d), d as i128));\n", ctor = ctor, vi = vi, j = j));
            if emits_trait {
                o.push_str(&format!("      let d2: DC = strum::IntoDiscriminant::discriminant(&e); obs.push(({vi}, {j}, \"discriminant()\", format!(\"{{:?}}\", d2), d2 as i128));\n", vi = vi, j = j));
            }
            o.push_str(&format!("      let d3: DC = <DC as From<EC>>::from(e); obs.push(({vi}, {j}, \"From<E>\", format!(\"{{:?}}\", d3), d3 as i128)); }}\n", vi = vi, j = j));
        }
    }
    o.push_str(&format!(
        "    let mut extras0: Vec<(String, String, String)> = vec![(\"visibility of the generated type from outside its module\".into(), {want:?}.into(), {probe}().to_string())];\n",
        want = if private { "local" } else { "generated" },
        probe = if private { "super::super::vf_vis_probe" } else { "vf_vis_probe" }
    ));
    o.push_str("    let layout = (core::mem::size_of::<DC>(), core::mem::align_of::<DC>(), core::mem::size_of::<RefD>(), core::mem::align_of::<RefD>());\n");
    o.push_str("    let mut extras: Vec<(String, String, String)> = extras0;\n");
    let all = spec.extra_attrs.join(" ");
    // the generated type always derives Clone, Copy, Debug, PartialEq, Eq
    o.push_str("    fn _always<X: Clone + Copy + core::fmt::Debug + PartialEq + Eq>() {}\n    _always::<DC>();\n");
    if all.contains("prelude::v1::derive(PartialOrd)") {
        o.push_str("    fn _req_path<X: PartialOrd>() {}\n    _req_path::<DC>();\n");
    }
    if all.contains("Hash, PartialOrd, Ord") {
        o.push_str("    fn _req<X: core::hash::Hash + PartialOrd + Ord>() {}\n    _req::<DC>();\n");
        if spec.variants.len() >= 2 {
            let a = &spec.variants[0].ident;
            let b = &spec.variants[1].ident;
            let ds = discriminants(spec).unwrap();
            o.push_str(&format!("    extras.push((\"derive(PartialOrd): {a} < {b}\".into(), format!(\"{{}}\", {want}), format!(\"{{}}\", DC::{a} < DC::{b})));\n", a = a, b = b, want = ds[0] < ds[1]));
        }
    }
    if all.contains("strum::EnumIter") {
        o.push_str(&format!("    extras.push((\"derive(EnumIter) on the generated type: count\".into(), \"{n}\".into(), format!(\"{{}}\", <DC as strum::IntoEnumIterator>::iter().count())));\n", n = spec.variants.len()));
        for v in &spec.variants {
            let snake = refsem::recase(crate::spec::unraw(&v.ident), refsem::Style::Snake);
            o.push_str(&format!("    extras.push((\"pass-through serialize_all: Display of {id}\".into(), {sn:?}.into(), DC::{id}.to_string()));\n", id = v.ident, sn = snake));
            // two identifiers can share one snake_case name (Kk / KK): the first declared one is parsed
            let first = spec.variants.iter().find(|w| refsem::recase(crate::spec::unraw(&w.ident), refsem::Style::Snake) == snake).map(|w| w.ident.clone()).unwrap_or_else(|| v.ident.clone());
            o.push_str(&format!("    extras.push((\"pass-through serialize_all: EnumString of {sn}\".into(), \"Ok({id})\".into(), format!(\"{{:?}}\", <DC as core::str::FromStr>::from_str({sn:?}))));\n", id = crate::spec::unraw(&first), sn = snake));
        }
    }
    if all.contains("prefix = \"p/\"") {
        for v in &spec.variants {
            let want = format!("p/{}", refsem::recase(crate::spec::unraw(&v.ident), refsem::Style::Snake));
            o.push_str(&format!("    extras.push((\"two strum(..) pass-through items (serialize_all + prefix): Display of {id}\".into(), {w:?}.into(), DC::{id}.to_string()));\n", id = v.ident, w = want));
        }
    }
    if all.contains("derive(Default)") {
        let last = &spec.variants[spec.variants.len() - 1];
        o.push_str(&format!("    extras.push((\"variant-level #[strum_discriminants(default)]: <D as Default>::default()\".into(), {id:?}.into(), format!(\"{{:?}}\", <DC as Default>::default())));\n", id = crate::spec::unraw(&last.ident)));
    }
    if all.contains("alias::Display") {
        o.push_str(&format!("    extras.push((\"first derive list (strum::Display) took effect\".into(), {nm:?}.into(), DC::{id}.to_string()));\n", id = spec.variants[0].ident, nm = crate::spec::unraw(&spec.variants[0].ident)));
        o.push_str(&format!("    extras.push((\"second derive list (alias::Display = EnumCount) took effect\".into(), \"{n}\".into(), format!(\"{{}}\", <DC as strum::EnumCount>::COUNT)));\n", n = spec.variants.len()));
    }
    if all.contains("strum::EnumMessage") {
        for (i, v) in spec.variants.iter().enumerate() {
            let want = if v.extra_attrs.iter().any(|a| a.contains("message")) { format!("Some(\"dm{}\")", i) } else { "None".to_string() };
            o.push_str(&format!("    extras.push((\"variant pass-through message on {id}\".into(), {want:?}.into(), format!(\"{{:?}}\", strum::EnumMessage::get_message(&DC::{id}))));\n", id = v.ident, want = want));
        }
    }
    o.push_str("    vf_core::props::c09::check(ctx, obs, layout, extras);\n}\n");
    if private {
        // the generated type cannot be named from outside `inner`: the whole harness moves into a child module of `inner`
        // (private items are visible there), only the probe stays outside
        let marker = format!("mod inner {{\n{}}}\n", inner);
        let rest = o[marker.len()..].replace("inner::", "super::");
        return format!("{}mod inner {{\n{}pub mod h {{\n#![allow(unused_imports, dead_code)]\nuse super::*;\n{}}}\n}}\npub use inner::h::run;\n", head, inner, rest);
    }
    let o = format!("{}{}", head, o);
    o
}

pub fn check(ctx: &mut Ctx, obs: Vec<(usize, usize, &'static str, String, i128)>, layout: (usize, usize, usize, usize), extras: Vec<(String, String, String)>) {
    let spec = ctx.spec().clone();
    let ds = discriminants(&spec).expect("domain");
    ctx.state();
    let interesting = spec.repr.is_some() || !spec.extra_attrs.is_empty() || spec.variants.iter().any(|v| v.disc.is_some() || !v.kind.is_unit()) || !spec.generics.is_empty();
    for (vi, j, what, name, num) in obs {
        let v = &spec.variants[vi];
        ctx.transition();
        let who = format!("{} on value #{} of variant {} ({})", what, j, vi, v.ident);
        let ok = ctx.expect_eq(&format!("conversion-{}", what), &who, &format!("{} = {}", crate::spec::unraw(&v.ident), ds[vi]), &format!("{} = {}", name, num));
        ctx.outcome(match what {
            "From<E>" => "from-value",
            "From<&E>" => "from-ref",
            _ => "discriminant()",
        });
        if v.disc.is_some() {
            ctx.outcome("explicit-discriminant-preserved");
        }
        if ok && interesting {
            ctx.nontrivial(&(vi, j, what));
        }
    }
    ctx.transition();
    let ok = ctx.expect_eq("layout", "size_of / align_of of the generated enum vs a hand-written field-less enum", &format!("size {} align {}", layout.2, layout.3), &format!("size {} align {}", layout.0, layout.1));
    if spec.repr.is_some() {
        ctx.outcome("repr-layout");
        if ok {
            ctx.nontrivial(&"layout");
        }
    }
    if dname(&spec) == "Dx" {
        ctx.outcome("renamed");
    }
    if matches!(dvis(&spec).as_deref(), Some("pub(crate)") | Some("pub(super)")) || spec.vis != "pub" {
        ctx.outcome("vis-restricted");
    }
    for (what, want, got) in extras {
        ctx.transition();
        let ok = ctx.expect_eq("derive-or-passthrough", &what, &want, &got);
        ctx.outcome(if what.contains("pass-through") { "passthrough-effects" } else { "derive-effects" });
        if ok {
            ctx.nontrivial(&what);
        }
    }
    if ctx.want_sample() && interesting && ctx.program.idx % 53 == 0 {
        ctx.sample(json!({"program": ctx.program.label, "enum": render_enum(&spec, &["strum::EnumDiscriminants"]), "reference_discriminants": ds}));
    }
}
