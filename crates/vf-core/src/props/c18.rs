//! C18 — a custom parse error is the user's function applied to the exact rejected input.

use super::strfam::*;
use super::*;
use crate::devs::enumerate;
use crate::harness::{my_err_calls, Ctx, Obs};
use crate::refsem::{self, Parsed};
use crate::spec::*;
use serde_json::json;

pub fn def() -> PropDef {
    PropDef {
        id: "C18",
        mode: Mode::Run,
        programs,
        strum_features: &["derive"],
        profiles: &["dev"],
        rule: "programs: C01's domain without default variants (<=k deviations from the 3-variant base), each built twice: with \
               parse_err_ty/parse_err_fn (f counts its calls and returns a struct owning a copy of its argument) and without. inputs: C01's input set. \
               oracle: rejected s -> Err(MyErr(s)) byte for byte and the call counter moved by exactly 1 per call; accepted s -> counter unchanged; \
               FromStr::Err / TryFrom::Error are the declared type (compile-time let-binding); without the attributes the error is ParseError::VariantNotFound. \
               non-trivial = every rejected input with the custom error + every accepted input; distinct per (program, input)",
        trusted_base: &["rustc", "derived Debug", "generated vidx() match", "vf-core R-parse", "the counting function vf_core::my_err"],
        assumptions: &[],
        required_outcomes: &["custom-reject", "custom-accept", "standard-reject", "accept-case-folded"],
    }
}

pub fn programs(tier: Tier) -> ProgramSet {
    let c = AlphaCfg {
        pool: if tier == Tier::Quick { vec!["x", "XY", "é", ""] } else { pool_full() },
        pool_b: vec!["xy"],
        kinds: true,
        disabled: true,
        default: false,
        default_with: tier == Tier::Thorough,
        aci: true,
        layouts: tier == Tier::Thorough,
        styles: vec!["snake_case"],
        enum_aci: true,
        generics: true,
        resize: false,
    };
    let (specs, ex) = enumerate(&EnumSpec::base(3), "B3", &alphabet(3, &c), 2, &parse_domain);
    let mut out = Vec::new();
    for e in specs {
        for custom in [true, false] {
            let mut spec = e.spec.clone();
            spec.parse_err = custom;
            let source = render(&spec);
            out.push(Program { idx: 0, label: format!("{} [{}]", e.label, if custom { "custom error" } else { "standard error" }), k: e.k, spec, aux: json!(null), source });
        }
        // the error function's return type is a type parameter that has to be inferred from parse_err_ty
        if e.k <= 1 {
            let mut spec = e.spec.clone();
            spec.parse_err = false;
            spec.extra_attrs.push("#[strum(parse_err_ty = vf_core::MyErr, parse_err_fn = vf_core::my_err_generic)]".into());
            let source = render(&spec);
            out.push(Program { idx: 0, label: format!("{} [error function with an inferred return type]", e.label), k: e.k + 1, spec, aux: json!(null), source });
        }
        // the error function is generic over its argument (an associated function taking `impl Into<String>`, a free function
        // taking `S: AsRef<str>`)
        if e.k <= 1 {
            for f in ["vf_core::MyErr::new_any", "vf_core::my_err_any", "LOWERCASE-TYPE", "COERCED"] {
                let mut spec = e.spec.clone();
                spec.parse_err = false;
                if f == "COERCED" {
                    // the function's return type only coerces to the declared error type
                    spec.extra_attrs.push("#[strum(parse_err_ty = Box<dyn core::fmt::Debug>, parse_err_fn = vf_core::my_err_boxed)]".into());
                    let source = render(&spec);
                    out.push(Program { idx: 0, label: format!("{} [error function returning Box<MyErr> for parse_err_ty = Box<dyn Debug>]", e.label), k: e.k + 1, spec, aux: json!(null), source });
                    continue;
                }
                if f == "LOWERCASE-TYPE" {
                    // an error type whose name starts with a lower-case letter (an alias, as `errno_t` or a primitive would be)
                    spec.extra_attrs.push("#[strum(parse_err_ty = vf_core::my_err_t, parse_err_fn = vf_core::my_err_any)]".into());
                    let source = render(&spec);
                    out.push(Program { idx: 0, label: format!("{} [error type with a lower-case name: my_err_t]", e.label), k: e.k + 1, spec, aux: json!(null), source });
                    continue;
                }
                spec.extra_attrs.push(format!("#[strum(parse_err_ty = vf_core::MyErr, parse_err_fn = {})]", f));
                let source = render(&spec);
                out.push(Program { idx: 0, label: format!("{} [error function generic over its argument: {}]", e.label, f), k: e.k + 1, spec, aux: json!(null), source });
            }
        }
        // the enum also derives EnumDiscriminants with derive(EnumString) for the generated type: THAT type never declared a custom
        // error, its FromStr::Err stays strum::ParseError
        if e.k == 0 {
            let mut spec = e.spec.clone();
            spec.parse_err = true;
            spec.extra_attrs.push("#[derive(strum::EnumDiscriminants)]".into());
            spec.extra_attrs.push("#[strum_discriminants(derive(strum::EnumString))]".into());
            let source = format!(
                "{}#[allow(dead_code)]\nfn _discriminant_error_type() {{\n    let _: fn(&str) -> Result<{n}Discriminants, strum::ParseError> = <{n}Discriminants as core::str::FromStr>::from_str;\n    let _: Option<<{n}Discriminants as core::convert::TryFrom<&str>>::Error> = None::<strum::ParseError>;\n}}\n",
                render(&spec),
                n = spec.name
            );
            out.push(Program { idx: 0, label: format!("{} [custom error] + EnumDiscriminants with derive(EnumString) on the generated type", e.label), k: 2, spec, aux: json!(null), source });
        }
        // a default variant next to the custom error: every input is accepted, the function must never run
        if e.k <= 1 && e.spec.generics.is_empty() {
            for first in [false, true] {
                let mut spec = e.spec.clone();
                spec.parse_err = true;
                let mut d = VariantSpec::unit("Dd");
                d.default = true;
                d.kind = Kind::Tuple(vec![FieldTy::Str]);
                if first {
                    spec.variants.insert(0, d);
                } else {
                    spec.variants.push(d);
                }
                if parse_domain(&spec) {
                    let source = render(&spec);
                    out.push(Program { idx: 0, label: format!("{} + default variant {} [custom error]", e.label, if first { "first" } else { "last" }), k: e.k + 1, spec, aux: json!(null), source });
                }
            }
        }
        // a variant that is BOTH default and disabled does not exist for the parser: misses still go to the function
        if e.k <= 1 && e.spec.generics.is_empty() {
            let mut spec = e.spec.clone();
            spec.parse_err = true;
            let mut d = VariantSpec::unit("Dd");
            d.default = true;
            d.disabled = true;
            d.kind = Kind::Tuple(vec![FieldTy::Str]);
            spec.variants.push(d);
            if parse_domain(&spec) {
                let source = render(&spec);
                out.push(Program { idx: 0, label: format!("{} + variant with default AND disabled [custom error]", e.label), k: e.k + 1, spec, aux: json!(null), source });
            }
        }
        // an error type that mentions the enum's own type parameter
        if let Some(tp) = e.spec.generics.iter().find_map(|g| match g {
            Generic::Type { name, .. } => Some(name.clone()),
            _ => None,
        }) {
            let mut spec = e.spec.clone();
            spec.parse_err = false;
            spec.extra_attrs.push(format!("#[strum(parse_err_ty = vf_core::MyErrG<{}>, parse_err_fn = vf_core::my_err_g)]", tp));
            let source = render(&spec);
            out.push(Program { idx: 0, label: format!("{} [custom error type mentioning T]", e.label), k: e.k + 1, spec, aux: json!({"generic_err": true}), source });
        }
    }
    // the error type and function are named by ABSOLUTE paths, next to local modules called like their first segment
    {
        let mut spec = EnumSpec::base(3);
        spec.parse_err = true;
        let source = format!(
            "{}pub mod vf_abs_path_probe {{\n    #![allow(dead_code)]\n    mod vf_core {{}}\n    mod core {{}}\n    #[derive(Debug, PartialEq, strum::EnumString)]\n    #[strum(parse_err_ty = ::vf_core::MyErr, parse_err_fn = ::vf_core::my_err)]\n    pub enum Probe {{ Aa, Bb }}\n    pub fn miss() -> ::core::result::Result<Probe, ::vf_core::MyErr> {{ <Probe as ::core::str::FromStr>::from_str(\"zz\") }}\n}}\n",
            render(&spec)
        );
        out.push(Program { idx: 0, label: "B3 [custom error] + a second enum whose error type / function are absolute paths next to local modules `vf_core` and `core`".into(), k: 2, spec, aux: json!(null), source });
    }
    // a DISABLED variant claims nothing: an enabled variant declared after it accepts the same name
    for custom in [true, false] {
        let mut spec = EnumSpec::base(3);
        spec.variants[0].disabled = true;
        spec.variants[0].serialize = vec!["lz".into()];
        spec.variants[1].serialize = vec!["lz".into(), "lz4".into()];
        spec.parse_err = custom;
        let source = render(&spec);
        out.push(Program { idx: 0, label: format!("B3 + v0: disabled + serialize=\"lz\", v1.serialize=[\"lz\", \"lz4\"] [{}]", if custom { "custom error" } else { "standard error" }), k: 3, spec, aux: json!(null), source });
    }
    // nothing to match at all: an enum without variants, and enums whose variants are all disabled - every input is a miss
    for (n, label) in [(0usize, "N=0 (no variants)"), (1, "N=1, the variant disabled"), (3, "N=3, every variant disabled")] {
        for custom in [true, false] {
            let mut spec = EnumSpec::base(n);
            for v in spec.variants.iter_mut() {
                v.disabled = true;
            }
            spec.parse_err = custom;
            let source = render(&spec);
            out.push(Program { idx: 0, label: format!("{} [{}]", label, if custom { "custom error" } else { "standard error" }), k: n.min(3), spec, aux: json!(null), source });
        }
    }
    for (spec0, label) in scale_specs() {
        if !parse_domain(&spec0) {
            continue;
        }
        for custom in [true, false] {
            let mut spec = spec0.clone();
            spec.parse_err = custom;
            let source = render(&spec);
            out.push(Program { idx: 0, label: format!("{} [{}]", label, if custom { "custom error" } else { "standard error" }), k: 1, spec, aux: json!(null), source });
        }
    }
    let mut exm = std::collections::BTreeMap::new();
    exm.insert("overlapping spellings".to_string(), ex as u64);
    ProgramSet { programs: finish(out), excluded: exm, bounds: json!({"N": 3, "k_max": 2, "twins": ["custom error", "standard error"]}) }
}

pub fn render(spec: &EnumSpec) -> String {
    let derives = ["Debug", "PartialEq", "strum::EnumString"];
    let generic_err = spec.extra_attrs.iter().any(|a| a.contains("MyErrG"));
    // the instantiation of the first type parameter (u8, or vf_core::Nd for a parameter named P, ..)
    let first_ty_arg = spec.generics_inst().trim_start_matches('<').trim_end_matches('>').split(", ").find(|a| !a.starts_with('\'')).unwrap_or("u8").to_string();
    let err_g = format!("vf_core::MyErrG<{}>", first_ty_arg);
    let inferred = spec.extra_attrs.iter().any(|a| a.contains("my_err_generic") || a.contains("new_any") || a.contains("my_err_any"));
    let coerced = spec.extra_attrs.iter().any(|a| a.contains("my_err_boxed"));
    let err_ty = if coerced { "Box<dyn core::fmt::Debug>" } else if generic_err { err_g.as_str() } else if spec.parse_err || inferred { "vf_core::MyErr" } else { "strum::ParseError" };
    if spec.variants.iter().any(|v| v.default && !v.disabled) {
        // with a default variant no input is rejected; which error type the impl names is not observable through a result and is
        // not asserted (the unchanged tree names strum::ParseError there)
        return render_parse_module(spec, &derives, "vf_core::props::c18::explore(ctx, &mut from_str, &mut try_from);");
    }
    let call = format!(
        "let _t1: fn(&str) -> Result<EC, {e}> = <EC as core::str::FromStr>::from_str;\n    let _t2: Option<<EC as core::str::FromStr>::Err> = None::<{e}>;\n    let _t3: Option<<EC as core::convert::TryFrom<&str>>::Error> = None::<{e}>;\n    vf_core::props::c18::explore(ctx, &mut from_str, &mut try_from);",
        e = err_ty
    );
    render_parse_module(spec, &derives, &call)
}

pub fn explore(ctx: &mut Ctx, from_str: &mut dyn FnMut(&str) -> Obs, try_from: &mut dyn FnMut(&str) -> Obs) {
    let spec = ctx.spec().clone();
    let custom = spec.parse_err || spec.extra_attrs.iter().any(|a| a.contains("MyErrG") || a.contains("my_err_generic") || a.contains("new_any") || a.contains("my_err_any") || a.contains("my_err_boxed"));
    let inp = family_inputs(ctx);
    // counter discipline, checked around every single call
    let mut f1 = |s: &str| -> Obs {
        let before = my_err_calls();
        let o = from_str(s);
        let d = my_err_calls() - before;
        tag(o, d)
    };
    let mut f2 = |s: &str| -> Obs {
        let before = my_err_calls();
        let o = try_from(s);
        let d = my_err_calls() - before;
        tag(o, d)
    };
    fn tag(o: Obs, calls: u64) -> Obs {
        match o {
            Obs::Ok(i, d) => Obs::Ok(i, format!("{} [f called {}x]", d, calls)),
            Obs::Err(e) => Obs::Err(format!("{} [f called {}x]", e, calls)),
            p => p,
        }
    }
    // expected values carry the expected call count in the same notation
    let spec2 = spec.clone();
    let mut g1 = |s: &str| f1(s);
    let mut g2 = |s: &str| f2(s);
    explore_parse_counted(ctx, &inp, &mut g1, &mut g2, custom, &spec2);
}

fn explore_parse_counted(ctx: &mut Ctx, inputs: &[String], f1: &mut dyn FnMut(&str) -> Obs, f2: &mut dyn FnMut(&str) -> Obs, custom: bool, spec: &EnumSpec) {
    let spellings = all_spellings(spec);
    for s in inputs {
        ctx.state();
        ctx.transitions(2);
        let want = match refsem::parse(spec, s) {
            Parsed::Ok(i, d) => {
                ctx.outcome(if custom { "custom-accept" } else { "standard-accept" });
                if !spellings.contains(s) {
                    ctx.outcome("accept-case-folded");
                }
                Obs::Ok(i, format!("{} [f called 0x]", d))
            }
            Parsed::Err => {
                ctx.outcome(if custom { "custom-reject" } else { "standard-reject" });
                if custom {
                    Obs::Err(format!("MyErr({:?}) [f called 1x]", s))
                } else {
                    Obs::Err("VariantNotFound [f called 0x]".to_string())
                }
            }
        };
        let w = want.show();
        let a = f1(s);
        let b = f2(s);
        let ok1 = ctx.expect_eq("from_str", &format!("{:?}", s), &w, &a.show());
        let ok2 = ctx.expect_eq("try_from", &format!("{:?}", s), &w, &b.show());
        if ok1 && ok2 && (custom || matches!(want, Obs::Ok(..))) {
            ctx.nontrivial(s);
        }
        if ctx.want_sample() && ctx.program.idx % 101 == 0 && custom && matches!(want, Obs::Err(_)) && !s.is_empty() {
            ctx.sample(json!({"program": ctx.program.label, "enum": render_enum(spec, &["strum::EnumString"]), "input": s, "expected": w, "observed": a.show()}));
        }
    }
}
