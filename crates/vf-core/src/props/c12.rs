//! C12 — ascii_case_insensitive folds ASCII letters only, only for the variants it covers.

use super::strfam::*;
use super::*;
use crate::devs::{dev, enumerate, Dev};
use crate::harness::Ctx;
use crate::spec::*;
use serde_json::json;

pub fn def() -> PropDef {
    PropDef {
        id: "C12",
        mode: Mode::Run,
        programs,
        strum_features: &["derive"],
        profiles: &["dev"],
        rule: "programs: the FULL product {enum flag off/on} x {variant flag absent, bare, =true, =false}^N for N=2..3 over the base identifiers \
               Kk, Sis, KK (letters with Unicode look-alikes; a case-twin pair), x <=k spelling deviations (serialize/to_string from a pool with Kk, ss, i, é, xé, XY, x1, İ), \
               programs whose spellings overlap are kept but explored on unambiguous inputs only (an input matched by two variants is skipped). inputs: ALL 2^k ASCII case flips of every spelling, every look-alike substitution (Kelvin sign, long s, \
               dotless/dotted i, sharp s, É/é, Å/Angstrom), one-edit neighbours, Trie(L). oracle: R-parse with A-Z-only folding. non-trivial = accepted \
               input or rejected input that equals a spelling after Unicode lower-casing; distinct per (program, input)",
        trusted_base: &["rustc", "derived Debug", "generated vidx() match", "vf-core R-parse / R-match (folds only A-Z)"],
        assumptions: &[],
        required_outcomes: &["accept", "reject", "accept-case-folded", "reject-near-miss"],
    }
}

// the third identifier is a case twin of the first: under a lower/upper-casing style two variants get the same spelling
const IDENTS: [&str; 3] = ["Kk", "Sis", "KK"];

pub fn programs(tier: Tier) -> ProgramSet {
    let pool: Vec<&str> = match tier {
        Tier::Quick => vec!["Kk", "ss", "é", "XY", "x1", "Éa", ""],
        Tier::Thorough => vec!["Kk", "ss", "i", "é", "xé", "XY", "x1", "İ", "", "ſ", "Éa", "ÉCOLE"],
    };
    let k = match tier {
        Tier::Quick => 1,
        Tier::Thorough => 2,
    };
    let derives = ["Debug", "PartialEq", "strum::EnumString"];
    let call = "vf_core::props::c12::explore(ctx, &mut from_str, &mut try_from);";
    let mut out = Vec::new();
    let mut excluded = 0u64;
    let flags = [None, Some(Aci::Bare), Some(Aci::True), Some(Aci::False)];
    for n in 1..=3usize {
        for eflag in [false, true] {
            for combo in 0..(4usize.pow(n as u32)) {
                let mut base = EnumSpec::base(n);
                base.aci = eflag;
                let mut c = combo;
                let mut fl = Vec::new();
                for i in 0..n {
                    base.variants[i].ident = IDENTS[i].to_string();
                    base.variants[i].aci = flags[c % 4];
                    fl.push(match flags[c % 4] {
                        None => "-",
                        Some(Aci::Bare) => "ci",
                        Some(Aci::True) => "ci=true",
                        Some(Aci::False) => "ci=false",
                    });
                    c /= 4;
                }
                let mut devs: Vec<Dev> = Vec::new();
                for i in 0..n {
                    for l in &pool {
                        let l2 = l.to_string();
                        devs.push(dev(format!("v{}.serialize={:?}", i, l), &[&format!("sp{}", i)], move |s| {
                            s.variants[i].serialize.push(l2.clone());
                            true
                        }));
                        let l3 = l.to_string();
                        devs.push(dev(format!("v{}.to_string={:?}", i, l), &[&format!("ts{}", i)], move |s| {
                            s.variants[i].to_string = Some(l3.clone());
                            true
                        }));
                    }
                }
                // two spellings of ONE variant that differ only in ASCII case (both must be accepted whatever the flags say)
                for i in 0..n {
                    devs.push(dev(format!("v{}.serialize=[\"xB\", \"XB\"]", i), &[&format!("sp{}", i)], move |s| {
                        s.variants[i].serialize.push("xB".into());
                        s.variants[i].serialize.push("XB".into());
                        true
                    }));
                }
                // default names that a letter-case-only style still changes: `_` and a non-ASCII cased letter in the identifier
                for (st, id) in [("camelCase", "NOT_Found"), ("PascalCase", "not_found"), ("lowercase", "ÄrX"), ("UPPERCASE", "ärX")] {
                    devs.push(dev(format!("serialize_all={:?} + v0.ident={}", st, id), &["style", "id0"], move |s| {
                        s.serialize_all = Some(st.to_string());
                        s.variants[0].ident = id.to_string();
                        true
                    }));
                }
                devs.push(dev("serialize_all=\"lowercase\"", &["style"], |s| {
                    s.serialize_all = Some("lowercase".into());
                    true
                }));
                devs.push(dev("serialize_all=\"SCREAMING_SNAKE_CASE\"", &["style"], |s| {
                    s.serialize_all = Some("SCREAMING_SNAKE_CASE".into());
                    true
                }));
                let label = format!("N={} enum_ci={} flags=[{}]", n, eflag, fl.join(","));
                // thorough: pairs of deviations only over the core literals (the literals added after rounds 9-11 take part as
                // single deviations); pairs for N = 2 only, N = 3 is covered at k = 1 with the complete flag product — about 60 000 programs instead of 400 000
                let core_lits = ["\"Kk\"", "\"ss\"", "\"i\"", "\"é\"", "\"xé\"", "\"XY\"", "\"x1\"", "\"İ\"", "\"\"", "\"ſ\""];
                let (mut specs, ex) = enumerate(&base, &label, &devs, 1, &parse_domain_overlap_ok);
                excluded += ex as u64;
                if k >= 2 && n == 2 {
                    let core: Vec<Dev> = devs.into_iter().filter(|d| !d.label.contains("={") && !d.label.contains("=\"") || core_lits.iter().any(|l| d.label.ends_with(l)) || d.label.starts_with("serialize_all=\"lowercase\"") || d.label.starts_with("serialize_all=\"SCREAMING")).filter(|d| !d.label.contains("v0.ident=") && !d.label.contains("[\"xB\"")).collect();
                    let (more, ex2) = enumerate(&base, &label, &core, k, &parse_domain_overlap_ok);
                    excluded += ex2 as u64;
                    let seen: std::collections::HashSet<EnumSpec> = specs.iter().map(|e| e.spec.clone()).collect();
                    specs.extend(more.into_iter().filter(|e| !seen.contains(&e.spec)));
                }
                for e in specs {
                    let source = render_parse_module(&e.spec, &derives, call);
                    let aux = overlap_aux(&e.spec);
                    out.push(Program { idx: 0, label: e.label, k: e.k, spec: e.spec, aux, source });
                }
            }
        }
    }
    for (spec, label) in scale_specs() {
        let source = render_parse_module(&spec, &derives, call);
        let aux = overlap_aux(&spec);
        out.push(Program { idx: 0, label, k: 1, spec, aux, source });
    }
    let mut ex = std::collections::BTreeMap::new();
    ex.insert("malformed (two defaults ..)".to_string(), excluded);
    ProgramSet {
        programs: finish(out),
        excluded: ex,
        bounds: json!({"N": [2, 3], "flag_product": "complete (2 x 4^N)", "k_max_spelling_deviations": k, "literal_pool": pool,
            "case_flips": "all 2^k", "trie_len": if tier == Tier::Quick { 3 } else { 4 }}),
    }
}

pub fn explore(ctx: &mut Ctx, from_str: &mut dyn FnMut(&str) -> crate::Obs, try_from: &mut dyn FnMut(&str) -> crate::Obs) {
    let inp = family_inputs(ctx);
    explore_parse(ctx, "", &inp, from_str, try_from, &|_| "VariantNotFound".to_string());
}
