//! C13 — EnumIs predicates partition the variants; EnumTryAs returns payloads unchanged.

use super::*;
use crate::devs::{dev, enumerate, Dev};
use crate::harness::Ctx;
use crate::refsem;
use crate::spec::*;
use serde_json::json;

pub fn def() -> PropDef {
    PropDef {
        id: "C13",
        mode: Mode::Run,
        programs,
        strum_features: &["derive"],
        profiles: &["dev"],
        rule: "programs: <=k deviations from the N-variant base (N=1..4): variant kind (unit, tuple with 0..3 fields of pairwise distinct types, named), identifier shape \
               (Hello2You, HTTPServer, A1, Utf8To16, X_y), disabled, generics <T>, lifetime <'a>. inputs: every variant built with two payload assignments x every generated method. \
               oracle: is_m(e) exists for every enabled variant (probed through a fallback trait so absence is observable) and is true iff m is the R-snake name of e's variant; no \
               predicate exists for a disabled variant's name; try_as_m(e) / _ref / _mut are Some(fields in order) exactly on that tuple variant (by value, by &, by &mut: a write \
               through the &mut result is read back from e) and None elsewhere. non-trivial = every (value, method) pair on an enum with >= 2 variants; distinct per (program, value, method)",
        trusted_base: &["rustc (inherent method beats trait method in resolution)", "derived Debug/Clone", "generated constructors and probes", "vf-core R-snake"],
        assumptions: &["type parameter instantiated with u8, lifetime with 'static"],
        required_outcomes: &["is-true", "is-false", "disabled-predicate-absent", "try_as-some", "try_as-none", "mut-write-lands", "three-fields"],
    }
}

fn tuple_kinds() -> Vec<(&'static str, Kind)> {
    vec![
        ("tuple0", Kind::Tuple(vec![])),
        ("tuple1", Kind::Tuple(vec![FieldTy::U8])),
        ("tuple2", Kind::Tuple(vec![FieldTy::Bool, FieldTy::U8])),
        ("tuple3", Kind::Tuple(vec![FieldTy::I32, FieldTy::SStr, FieldTy::U8])),
        ("named2", Kind::Named(vec![NamedField { name: "x".into(), ty: FieldTy::U8, default_with: false }, NamedField { name: "y".into(), ty: FieldTy::Bool, default_with: false }])),
    ]
}

// For identifiers with `_` directly before a digit (`X86_64`, `V_2`) the statement does not settle whether that digit run is
// "split off" once more (`x_86__64` or `x_86_64`): such a variant is constructed and asked every OTHER variant's predicate and
// accessors (all false / None), and the derive must compile, but its own methods are not called by name.
// Identifiers that begin with the word `Is` still get the `is_` prefix (`is_is_empty`).
const IDENT_POOL: [&str; 22] = ["Hello2You", "HTTPServer", "A1", "Utf8To16", "X_y", "Ab2c3", "V1", "Café2", "Ünï3x", "r#try", "RParen", "R_x", "x86", "arm64v", "_res", "X86_64", "V_2", "IsEmpty", "Is", "Level9", "V91", "Span90"];

pub fn name_unsettled(ident: &str) -> bool {
    let cs: Vec<char> = ident.chars().collect();
    cs.windows(2).any(|w| w[0] == '_' && w[1].is_ascii_digit())
}

fn alphabet(n: usize) -> Vec<Dev> {
    let mut d: Vec<Dev> = Vec::new();
    for i in 0..n {
        for (kn, kd) in tuple_kinds() {
            d.push(dev(format!("v{}.kind={}", i, kn), &[&format!("kind{}", i)], move |s| {
                s.variants[i].kind = kd.clone();
                true
            }));
        }
        for id in IDENT_POOL {
            d.push(dev(format!("v{}.ident={}", i, id), &[&format!("id{}", i)], move |s| {
                if s.variants.iter().any(|v| v.ident == id) {
                    return false;
                }
                s.variants[i].ident = id.to_string();
                true
            }));
        }
        d.push(dev(format!("v{}.disabled", i), &[&format!("dis{}", i)], move |s| {
            s.variants[i].disabled = true;
            true
        }));
    }
    // serialize_all belongs to the string derives: the method names do not depend on it
    for st in ["lowercase", "UPPERCASE", "SCREAMING-KEBAB-CASE"] {
        d.push(dev(format!("serialize_all={:?} (no effect on method names)", st), &["style"], move |s| {
            s.serialize_all = Some(st.to_string());
            true
        }));
    }
    // two variants whose method names coincide, exactly one of them disabled (valid: a disabled variant gets no method)
    if n >= 2 {
        d.push(dev("v0.ident=HTTPServer + v1.ident=HttpServer(disabled)", &["id0", "id1", "dis1"], |s| {
            s.variants[0].ident = "HTTPServer".into();
            s.variants[1].ident = "HttpServer".into();
            s.variants[1].disabled = true;
            true
        }));
        d.push(dev("v0.ident=Utf8(disabled) + v1.ident=UTF8", &["id0", "id1", "dis0"], |s| {
            s.variants[0].ident = "Utf8".into();
            s.variants[0].disabled = true;
            s.variants[1].ident = "UTF8".into();
            true
        }));
    }
    d.push(dev("generic<T>", &["gen", "kind0"], |s| {
        s.generics = vec![Generic::Type { name: "T".into(), bounds: "".into() }];
        s.variants[0].kind = Kind::Tuple(vec![FieldTy::T, FieldTy::Bool]);
        true
    }));
    d.push(dev("generic<'a>", &["gen", "kind0"], |s| {
        s.generics = vec![Generic::Lifetime { name: "a".into() }];
        s.variants[0].kind = Kind::Tuple(vec![FieldTy::LStr]);
        true
    }));
    d.extend(crate::devs::rich_generic_devs(true));
    d.push(dev("context: a user type called `Option` is declared next to the enum", &["ctx", "gen", "evis", "dvis"], |s| {
        let mentions = |t: &FieldTy| t.ty().contains("Option<");
        if s.variants.iter().any(|v| match &v.kind {
            Kind::Unit => false,
            Kind::Tuple(f) => f.iter().any(mentions),
            Kind::Named(f) => f.iter().any(|x| mentions(&x.ty)),
        }) {
            return false;
        }
        s.syntax.push("own-option-type".into());
        true
    }));
    d.extend(crate::devs::syntax_devs(false, false, true, false));
    // `disabled` sharing one attribute list with other keys (before and after it)
    d.extend(crate::devs::rare_shape_devs(n, false).into_iter().filter(|d| d.label.contains("every disabled variant is written")));
            d.extend(crate::devs::context_devs());
    d
}

pub fn programs(tier: Tier) -> ProgramSet {
    let plan: Vec<(usize, usize)> = match tier {
        Tier::Quick => vec![(1, 2), (2, 2), (3, 1)],
        Tier::Thorough => vec![(1, 3), (2, 3), (3, 3), (4, 2)],
    };
    let mut out = Vec::new();
    let mut seen = std::collections::HashSet::new();
    for (n, k) in &plan {
        let (specs, _) = enumerate(&EnumSpec::base(*n), &format!("B{}", n), &alphabet(*n), *k, &|s: &EnumSpec| {
            // two ENABLED variants with the same method name are outside the domain (duplicate definitions)
            let names: Vec<String> = s.variants.iter().filter(|v| !v.disabled).map(|v| refsem::snakify(&v.ident)).collect();
            let mut u = names.clone();
            u.sort();
            u.dedup();
            u.len() == names.len()
        });
        for e in specs {
            if seen.insert(e.spec.clone()) {
                let source = render(&e.spec);
                out.push(Program { idx: 0, label: e.label, k: e.k, spec: e.spec, aux: json!(null), source });
            }
        }
    }
    // a user macro called `matches` is in (textual) scope where the enum is declared: generated code must not expand it
    {
        let mut spec = EnumSpec::base(2);
        spec.variants[1].kind = Kind::Tuple(vec![FieldTy::U8]);
        let source = format!("#[allow(unused_macros)]\nmacro_rules! matches {{ ($($t:tt)*) => {{ false }}; }}\n{}", render(&spec));
        out.push(Program { idx: 0, label: "B2 + a local macro_rules! matches is in scope where the enum is declared".into(), k: 1, spec, aux: json!(null), source });
    }
    // SCALE: 26 variants (every predicate is asked on every variant: 26 x 26), wide tuple / named variants
    {
        let mut spec = EnumSpec::base(0);
        let tys = [FieldTy::U8, FieldTy::I32, FieldTy::Bool, FieldTy::SStr];
        let words = ["Alpha", "HTTPServer", "Utf8To16Le", "AaBbCcDdEeFfGgHhIiJjKkLl", "X", "Xy", "XyZ", "X1y", "Café2", "V"];
        for i in 0..26usize {
            let id = if i < words.len() { words[i].to_string() } else { format!("Var{}Of26", i) };
            let mut v = VariantSpec::unit(&id);
            match i % 5 {
                1 => v.kind = Kind::Tuple(vec![tys[i % 4].clone()]),
                2 => v.kind = Kind::Named(vec![NamedField { name: format!("n{}", i), ty: tys[i % 4].clone(), default_with: false }]),
                3 => v.kind = Kind::Tuple((0..(i % 4 + 2)).map(|j| tys[(i + j) % 4].clone()).collect()),
                _ => {}
            }
            if i % 11 == 10 {
                v.disabled = true;
            }
            spec.variants.push(v);
        }
        let mut w = VariantSpec::unit("Wide12");
        w.kind = Kind::Tuple((0..12).map(|j| tys[j % 4].clone()).collect());
        spec.variants.push(w);
        let mut n = VariantSpec::unit("Named12");
        n.kind = Kind::Named((0..12).map(|j| NamedField { name: format!("f{}", j), ty: tys[(j + 1) % 4].clone(), default_with: false }).collect());
        spec.variants.push(n);
        let source = render(&spec);
        out.push(Program { idx: 0, label: "SCALE: 28 variants incl. 12-field tuple and named variants".into(), k: 1, spec, aux: json!(null), source });
    }
    ProgramSet { programs: finish(out), excluded: Default::default(), bounds: json!({"plan_(N,k)": plan, "identifier_pool": IDENT_POOL, "payload_assignments": 2, "scale": "28 variants, 12-field variants"}) }
}

/// (expression, Debug text) of payload assignment j for a field type
pub fn payload(ty: &FieldTy, j: usize) -> (String, String) {
    match (ty, j) {
        (FieldTy::U8, 0) | (FieldTy::T, 0) => ("0".into(), "0".into()),
        (FieldTy::U8, _) | (FieldTy::T, _) => ("255".into(), "255".into()),
        (FieldTy::Bool, 0) => ("false".into(), "false".into()),
        (FieldTy::Bool, _) => ("true".into(), "true".into()),
        (FieldTy::I32, 0) => ("-1".into(), "-1".into()),
        (FieldTy::I32, _) => ("7".into(), "7".into()),
        (FieldTy::SStr, 0) | (FieldTy::LStr, 0) => ("\"\"".into(), "\"\"".into()),
        (FieldTy::SStr, _) | (FieldTy::LStr, _) => ("\"é\"".into(), "\"é\"".into()),
        _ => ("Default::default()".into(), ty.default_dbg()),
    }
}

/// (statement writing a new value through `*r`, Debug text of the new value)
fn write_through(ty: &FieldTy) -> (String, String) {
    match ty {
        FieldTy::U8 | FieldTy::T => ("= 201".into(), "201".into()),
        FieldTy::Bool => ("^= true".into(), "<flipped>".into()),
        FieldTy::I32 => ("= -77".into(), "-77".into()),
        FieldTy::SStr | FieldTy::LStr => ("= \"w\"".into(), "\"w\"".into()),
        _ => ("= Default::default()".into(), ty.default_dbg()),
    }
}

fn fields_of(k: &Kind) -> Vec<FieldTy> {
    match k {
        Kind::Unit => vec![],
        Kind::Tuple(f) => f.clone(),
        Kind::Named(f) => f.iter().map(|x| x.ty.clone()).collect(),
    }
}

pub fn render(spec: &EnumSpec) -> String {
    let mut o = String::new();
    o.push_str(&render_enum(spec, &["Debug", "Clone", "PartialEq", "strum::EnumIs", "strum::EnumTryAs"]));
    o.push_str(&format!("type EC = {}{};\n", spec.name, spec.generics_inst()));
    // fallback traits: one per predicate / accessor name, so that the absence of an inherent method is observable
    o.push_str("pub struct Absent;\ntrait ProbeB { fn probe(self) -> Option<bool>; }\nimpl ProbeB for bool { fn probe(self) -> Option<bool> { Some(self) } }\nimpl ProbeB for Absent { fn probe(self) -> Option<bool> { None } }\n");
    let mut seen_names: Vec<String> = Vec::new();
    for (i, v) in spec.variants.iter().enumerate() {
        let m = refsem::snakify(&v.ident);
        if seen_names.contains(&m) || name_unsettled(&v.ident) {
            continue;
        }
        seen_names.push(m.clone());
        o.push_str(&format!("trait FbIs{i} {{ fn is_{m}(&self) -> Absent {{ Absent }} }}\nimpl<X> FbIs{i} for X {{}}\n", i = i, m = m));
    }
    // compile-time probe of the carried TYPES (Debug text cannot tell `&str` from `&&str`)
    {
        let concrete = |t: &FieldTy| -> Option<String> {
            match t {
                FieldTy::T | FieldTy::U | FieldTy::Raw(..) | FieldTy::Nd => None,
                other => Some(other.ty().replace("'a", "'static")),
            }
        };
        let mut probe = String::new();
        for v in spec.variants.iter() {
            if v.disabled || name_unsettled(&v.ident) {
                continue;
            }
            if let Kind::Tuple(tf) = &v.kind {
                let tys: Option<Vec<String>> = tf.iter().map(|t| concrete(t)).collect();
                if let Some(tys) = tys {
                    let m = refsem::snakify(&v.ident);
                    let tup = |pre: &str| match tys.len() {
                        0 => "()".to_string(),
                        1 => format!("{}{}", pre, tys[0]),
                        _ => format!("({})", tys.iter().map(|t| format!("{}{}", pre, t)).collect::<Vec<_>>().join(", ")),
                    };
                    probe.push_str(&format!(
                        "    let _: fn(EC) -> Option<{v}> = EC::try_as_{m};\n    let _: for<'r> fn(&'r EC) -> Option<{r}> = EC::try_as_{m}_ref;\n    let _: for<'r> fn(&'r mut EC) -> Option<{w}> = EC::try_as_{m}_mut;\n",
                        v = tup(""),
                        r = tup("&'r "),
                        w = tup("&'r mut "),
                        m = m
                    ));
                }
            }
        }
        if !probe.is_empty() && spec.generics.iter().all(|g| !matches!(g, Generic::Lifetime { .. })) {
            o.push_str(&format!("#[allow(dead_code)]\nfn _accessor_types() {{\n{}}}\n", probe));
        }
    }
    o.push_str("pub fn run(ctx: &mut vf_core::Ctx) {\n    let mut obs: Vec<(usize, usize, String, String)> = Vec::new();\n");
    for (vi, v) in spec.variants.iter().enumerate() {
        let ftys = fields_of(&v.kind);
        for j in 0..2usize {
            if j == 1 && ftys.is_empty() {
                continue;
            }
            let fx: Vec<String> = ftys.iter().map(|t| payload(t, j).0).collect();
            let e = format!("vf_core::id::<EC>({})", render_ctor(spec, vi, &fx));
            o.push_str(&format!("    {{\n        let e: EC = {};\n", e));
            for (mi, mv) in spec.variants.iter().enumerate() {
                if name_unsettled(&mv.ident) {
                    continue;
                }
                let m = refsem::snakify(&mv.ident);
                o.push_str(&format!("        obs.push(({vi}, {j}, \"is_{m}\".to_string(), format!(\"{{:?}}\", e.is_{m}().probe())));\n", vi = vi, j = j, m = m));
                let _ = mi;
                if let Kind::Tuple(tf) = &mv.kind {
                    if mv.disabled {
                        continue;
                    }
                    o.push_str(&format!("        obs.push(({vi}, {j}, \"try_as_{m}\".to_string(), format!(\"{{:?}}\", Clone::clone(&e).try_as_{m}())));\n", vi = vi, j = j, m = m));
                    o.push_str(&format!("        obs.push(({vi}, {j}, \"try_as_{m}_ref\".to_string(), format!(\"{{:?}}\", e.try_as_{m}_ref())));\n", vi = vi, j = j, m = m));
                    // _mut: read, then write through every field and read the enum back
                    o.push_str(&format!("        {{ let mut e2 = Clone::clone(&e); let r = format!(\"{{:?}}\", e2.try_as_{m}_mut()); obs.push(({vi}, {j}, \"try_as_{m}_mut\".to_string(), r));\n", vi = vi, j = j, m = m));
                    if !tf.is_empty() {
                        o.push_str(&format!("          if let Some(t) = e2.try_as_{m}_mut() {{\n", m = m));
                        if tf.len() == 1 {
                            o.push_str(&format!("            *t {};\n", write_through(&tf[0]).0));
                        } else {
                            for (fi, ft) in tf.iter().enumerate() {
                                o.push_str(&format!("            *t.{} {};\n", fi, write_through(ft).0));
                            }
                        }
                        o.push_str(&format!("          }}\n          obs.push(({vi}, {j}, \"write-through try_as_{m}_mut\".to_string(), format!(\"{{:?}}\", e2)));\n", vi = vi, j = j, m = m));
                    }
                    o.push_str("        }\n");
                }
            }
            o.push_str("    }\n");
        }
    }
    o.push_str("    vf_core::props::c13::check(ctx, obs);\n}\n");
    o
}

pub fn check(ctx: &mut Ctx, obs: Vec<(usize, usize, String, String)>) {
    let spec = ctx.spec().clone();
    ctx.state();
    let multi = spec.variants.len() >= 2;
    for (vi, j, method, got) in obs {
        let v = &spec.variants[vi];
        ctx.transition();
        let ftys = fields_of(&v.kind);
        let dbg: Vec<String> = ftys.iter().map(|t| payload(t, j).1).collect();
        let tuple_txt = |xs: &[String]| -> String {
            match xs.len() {
                0 => "()".to_string(),
                1 => xs[0].clone(),
                _ => format!("({})", xs.join(", ")),
            }
        };
        let want: String;
        if let Some(m) = method.strip_prefix("is_") {
            let target = spec
                .variants
                .iter()
                .find(|x| !x.disabled && refsem::snakify(&x.ident) == m)
                .or_else(|| spec.variants.iter().find(|x| refsem::snakify(&x.ident) == m))
                .expect("method of a declared variant");
            if target.disabled {
                want = "None".into();
                ctx.outcome("disabled-predicate-absent");
            } else {
                let t = std::ptr::eq(target, v);
                want = format!("Some({})", t);
                ctx.outcome(if t { "is-true" } else { "is-false" });
            }
        } else if let Some(rest) = method.strip_prefix("write-through try_as_") {
            let m = rest.trim_end_matches("_mut");
            let target = spec.variants.iter().find(|x| !x.disabled && refsem::snakify(&x.ident) == m).or_else(|| spec.variants.iter().find(|x| refsem::snakify(&x.ident) == m)).expect("declared");
            if std::ptr::eq(target, v) {
                let newd: Vec<String> = ftys
                    .iter()
                    .enumerate()
                    .map(|(fi, t)| {
                        let w = write_through(t).1;
                        if w == "<flipped>" {
                            (dbg[fi] != "true").to_string()
                        } else {
                            w
                        }
                    })
                    .collect();
                want = debug_text(v, &newd);
                ctx.outcome("mut-write-lands");
            } else {
                want = debug_text(v, &dbg);
            }
        } else {
            let m0 = method.strip_prefix("try_as_").unwrap_or(&method);
            let m = m0.trim_end_matches("_ref").trim_end_matches("_mut");
            let target = spec.variants.iter().find(|x| !x.disabled && refsem::snakify(&x.ident) == m).or_else(|| spec.variants.iter().find(|x| refsem::snakify(&x.ident) == m)).expect("declared");
            if std::ptr::eq(target, v) {
                want = format!("Some({})", tuple_txt(&dbg));
                ctx.outcome("try_as-some");
                if ftys.len() == 3 {
                    ctx.outcome("three-fields");
                }
            } else {
                want = "None".into();
                ctx.outcome("try_as-none");
            }
        }
        let kind = if method.starts_with("is_") {
            "is"
        } else if method.starts_with("write-through") {
            "write-through-mut"
        } else if method.ends_with("_ref") {
            "try_as_ref"
        } else if method.ends_with("_mut") {
            "try_as_mut"
        } else {
            "try_as"
        };
        let ok = ctx.expect_eq(kind, &format!("{} on value #{} of variant {} ({})", method, j, vi, v.ident), &want, &got);
        if ok && multi {
            ctx.nontrivial(&(vi, j, method.clone()));
        }
    }
    if ctx.want_sample() && ctx.program.idx % 43 == 0 {
        ctx.sample(json!({"program": ctx.program.label, "enum": render_enum(&spec, &["strum::EnumIs", "strum::EnumTryAs"]),
            "methods": spec.variants.iter().map(|v| format!("is_{}", refsem::snakify(&v.ident))).collect::<Vec<_>>()}));
    }
}
