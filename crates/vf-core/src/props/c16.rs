//! C16 — use_phf is a pure optimisation of EnumString.

use super::strfam::*;
use super::*;
use crate::devs::{dev, enumerate};
use crate::harness::{Ctx, Obs};
use crate::refsem::{self, Parsed};
use crate::spec::*;
use serde_json::json;

pub fn def() -> PropDef {
    PropDef {
        id: "C16",
        mode: Mode::Run,
        programs,
        strum_features: &["derive", "phf"],
        profiles: &["dev"],
        rule: "programs: C01's sub-domain whose non-default variants are field-less (+Clone) — spellings MAY overlap between variants (on inputs matched by several \
               variants only the differential comparison applies) —, <=k deviations from the 3-variant base over a pool with \
               mixed-case, all-lower, all-upper, caseless (\"1\", \"-\", \"é\") and empty spellings, case-insensitivity at enum and variant level, default and \
               disabled variants; every spec is rendered TWICE in the same module (plain enum E, twin P with #[strum(use_phf)]). oracle: (a) the module compiles — a \
               diagnostic is a violation ('accepted without, rejected with'); (b) for every input of C01's set obs(E::from_str(s)) == obs(P::from_str(s)) == \
               obs(P::try_from(s)) == R-parse(s). non-trivial = accepted input or near-miss reject; distinct per (program, input)",
        trusted_base: &["rustc", "phf 0.11", "derived Debug", "generated vidx() matches", "vf-core R-parse"],
        assumptions: &["the plain twin is compiled in the same module, so a compile error is attributed to the pair"],
        required_outcomes: &["accept", "reject", "accept-case-folded", "default-capture", "reject-near-miss", "ambiguous-input-differential"],
    }
}

/// C01's field-less sub-domain, *without* the "spellings do not overlap" restriction: the statement compares the two
/// parsers on every enum the plain derive accepts. Overlapping programs are tagged (aux.overlap): on inputs matched by
/// several variants only the differential comparison applies (there is no reference answer), and a compile error in
/// such a program is not reported (see pipeline).
fn domain(s: &EnumSpec) -> bool {
    parse_domain_overlap_ok(s) && s.variants.iter().all(|v| v.default || v.kind.is_unit())
}

pub fn programs(tier: Tier) -> ProgramSet {
    let c = AlphaCfg {
        pool: if tier == Tier::Quick { vec!["x", "Xy", "XY", "é", "", "1", "ééééé"] } else { vec!["x", "xy", "Xy", "XY", "é", "", "1", "-", "ab", "AB", "x1", "Aa", "aa", "ééééé", "Éa"] },
        pool_b: if tier == Tier::Quick { vec!["xy", "XY"] } else { vec!["xy", "XY", "x", ""] },
        kinds: false,
        disabled: true,
        default: true,
        default_with: false,
        aci: true,
        layouts: false,
        styles: vec!["snake_case", "lowercase", "UPPERCASE"],
        enum_aci: true,
        generics: false,
        resize: true,
    };
    let k = if tier == Tier::Quick { 2 } else { 3 };
    let mut devs = alphabet(3, &c);
    // a custom error type + function that counts its calls: it must run once per rejected input and never for an accepted one,
    // through the map as through the match
    devs.push(dev("parse_err_ty + parse_err_fn (counting)", &["perr"], |s| {
        s.parse_err = true;
        true
    }));
    let (specs, ex) = enumerate(&EnumSpec::base(3), "B3", &devs, k, &domain);
    let mut out = Vec::new();
    for e in specs {
        let source = render(&e.spec);
        let aux = overlap_aux(&e.spec);
        out.push(Program { idx: 0, label: e.label, k: e.k, spec: e.spec, aux, source });
    }
    // combined deviations that a k-bounded search reaches late
    {
        // enum-level flag + a later spelling that equals an earlier one ignoring case (the earlier, insensitive one wins)
        let mut s1 = EnumSpec::base(3);
        s1.aci = true;
        s1.variants[0].serialize = vec!["XY".into()];
        s1.variants[2].serialize = vec!["Xy".into()];
        s1.variants[2].aci = Some(Aci::False);
        let mut s2 = s1.clone();
        s2.variants[2].aci = None;
        s2.serialize_all = Some("snake_case".into());
        // hostile scope (prelude names re-bound) with and without case-insensitivity / default variant
        let mut s3 = EnumSpec::base(3);
        s3.syntax.push("hostile-scope".into());
        let mut s4 = s3.clone();
        s4.aci = true;
        s4.variants[1].serialize = vec!["".into(), "é".into()];
        let mut d = VariantSpec::unit("Dd");
        d.default = true;
        d.kind = Kind::Tuple(vec![FieldTy::Str]);
        let mut s5 = s3.clone();
        s5.variants.push(d);
        // a DISABLED (or default) case-insensitive variant claims nothing: a later exact spelling that equals its name ignoring
        // case is answered by the map as by the match
        let mut s6 = EnumSpec::base(3);
        s6.variants[0].disabled = true;
        s6.variants[0].aci = Some(Aci::Bare);
        s6.variants[1].serialize = vec!["kk".into()];
        let mut s7 = EnumSpec::base(3);
        let mut d7 = VariantSpec::unit("Dd");
        d7.default = true;
        d7.aci = Some(Aci::Bare);
        d7.kind = Kind::Tuple(vec![FieldTy::Str]);
        s7.variants.insert(0, d7);
        s7.variants[1].serialize = vec!["dd".into()];
        let mut s8 = s6.clone();
        s8.aci = true;
        s8.variants[0].aci = None;
        s8.variants[1].aci = Some(Aci::False);
        {
            let mut sm = EnumSpec::base(3);
            sm.parse_err = true;
            sm.syntax.push("err-fn-in-mod-phf".into());
            let source = render(&sm);
            out.push(Program { idx: 0, label: "B3 + parse_err_ty / parse_err_fn named through a user module called `phf`".into(), k: 2, spec: sm, aux: json!(null), source });
        }
        for nm in ["Map", "PHF", "Value", "Option", "S"] {
            let mut sn = EnumSpec::base(3);
            sn.aci = nm == "PHF";
            sn.syntax.push(format!("phf-twin-named:{}", nm));
            let source = render(&sn);
            out.push(Program { idx: 0, label: format!("B3 + the use_phf enum is called `{}`", nm), k: 1, spec: sn, aux: json!(null), source });
        }
        let mut s9 = EnumSpec::base(3);
        s9.variants[0].aci = Some(Aci::Bare);
        s9.variants[1].serialize = vec!["KK".into(), "exit".into()];
        let mut s10 = s9.clone();
        s10.variants[1].serialize = vec!["exit".into()];
        s10.variants[1].to_string = Some("kK".into());
        for (sp, lab) in [(s9, "v0.ascii_case_insensitive + v1.serialize=[\"KK\", \"exit\"] (one of two names shadowed)"), (s10, "v0.ascii_case_insensitive + v1.serialize=\"exit\" + v1.to_string=\"kK\"")] {
            if domain(&sp) {
                let source = render(&sp);
                let aux = overlap_aux(&sp);
                out.push(Program { idx: 0, label: format!("B3 + {}", lab), k: 3, spec: sp, aux, source });
            }
        }
        for (sp, lab) in [(s6, "v0: disabled + ascii_case_insensitive, v1.serialize=\"kk\""), (s7, "default variant first with ascii_case_insensitive, v1.serialize=\"dd\""), (s8, "enum-level ascii_case_insensitive + v0.disabled + v1.serialize=\"kk\" (= false)")] {
            if domain(&sp) {
                let source = render(&sp);
                let aux = overlap_aux(&sp);
                out.push(Program { idx: 0, label: format!("B3 + {}", lab), k: 3, spec: sp, aux, source });
            }
        }
        for (sp, lab) in [(s1, "enum-level ascii_case_insensitive + v0.serialize=\"XY\" + v2.serialize=\"Xy\" (= false)"), (s2, "enum-level ascii_case_insensitive + v0.serialize=\"XY\" + v2.serialize=\"Xy\" + snake_case"), (s3, "context: scope re-binds Ok / Err / Some / None"), (s4, "context: hostile scope + enum-level ascii_case_insensitive"), (s5, "context: hostile scope + default variant")] {
            if domain(&sp) {
                let source = render(&sp);
                let aux = overlap_aux(&sp);
                out.push(Program { idx: 0, label: format!("B3 + {}", lab), k: 3, spec: sp, aux, source });
            }
        }
    }
    for (mut spec, label) in scale_specs() {
        // field-less version
        for v in spec.variants.iter_mut() {
            v.kind = Kind::Unit;
        }
        if domain(&spec) {
            let source = render(&spec);
            out.push(Program { idx: 0, label, k: 1, spec, aux: json!(null), source });
        }
    }
    let mut exm = std::collections::BTreeMap::new();
    exm.insert("data variants / two default variants".to_string(), ex as u64);
    ProgramSet { programs: finish(out), excluded: exm, bounds: json!({"N": 3, "k_max": k, "literal_pool": c.pool, "twins": ["plain", "use_phf"]}) }
}

pub fn render(spec: &EnumSpec) -> String {
    let derives = ["Debug", "Clone", "PartialEq", "strum::EnumString"];
    let mut o = String::new();
    let mut p = spec.clone();
    p.name = "P".into();
    p.use_phf = true;
    // the phf twin may carry a name that the generated lookup code itself uses for something else
    let twin_name: Option<String> = spec.syntax.iter().find_map(|x| x.strip_prefix("phf-twin-named:").map(|n| n.to_string()));
    p.syntax.retain(|x| !x.starts_with("phf-twin-named:"));
    let mut e_spec = spec.clone();
    e_spec.syntax.retain(|x| !x.starts_with("phf-twin-named:"));
    // the custom error type and function are reached through a user module that happens to be called `phf`
    let err_in_mod_phf = e_spec.syntax.iter().any(|x| x == "err-fn-in-mod-phf");
    if err_in_mod_phf {
        for sp in [&mut e_spec, &mut p] {
            sp.syntax.retain(|x| x != "err-fn-in-mod-phf");
            sp.parse_err = false;
            sp.extra_attrs.push("#[strum(parse_err_ty = phf::MyErr, parse_err_fn = phf::my_err)]".into());
        }
        o.push_str("#[allow(unused_imports)]\nmod phf { pub use vf_core::{my_err, MyErr}; }\n");
    }
    let counted_obs = spec.parse_err;
    let spec = &e_spec;
    if let Some(n) = &twin_name {
        p.name = n.clone();
    }
    if spec.syntax.iter().any(|x| x == "hostile-scope") {
        // both enums live in a module whose scope re-binds the prelude's Ok / Err / Some / None (the plain derive
        // compiles there, so the phf one has to as well)
        o.push_str("pub mod hostile {\n    #![allow(non_snake_case, dead_code)]\n    pub fn Ok() {}\n    pub fn Err() {}\n    pub fn Some() {}\n    pub fn None() {}\n    pub struct Option;\n    pub struct Result;\n");
        o.push_str(&render_enum(spec, &derives));
        o.push_str(&render_enum(&p, &derives));
        o.push_str("}\npub use hostile::{E, P};\n");
    } else {
        o.push_str(&render_enum(spec, &derives));
        o.push_str(&render_enum(&p, &derives));
        if let Some(n) = &twin_name {
            o.push_str(&format!("pub type P = {};\n", n));
            p.name = "P".into();
        }
    }
    // a second, unrelated use_phf enum in the same scope (generated helper items must not collide)
    o.push_str("#[allow(dead_code)]\n#[derive(Debug, Clone, PartialEq, strum::EnumString)]\n#[strum(use_phf)]\npub enum NeighbourPhf { Qa, #[strum(ascii_case_insensitive)] Qb }\n");
    o.push_str(&render_vidx(spec, "E", "vidx_e"));
    o.push_str(&render_vidx(&p, "P", "vidx_p"));
    let body = r#"fn obs_e<X: core::fmt::Debug>(r: Result<Result<E, X>, String>) -> vf_core::Obs {
    match r { Ok(Ok(v)) => vf_core::Obs::Ok(vidx_e(&v), format!("{:?}", v)), Ok(Err(e)) => vf_core::Obs::Err(format!("{:?}", e)), Err(m) => vf_core::Obs::Panic(m) }
}
fn obs_p<X: core::fmt::Debug>(r: Result<Result<P, X>, String>) -> vf_core::Obs {
    match r { Ok(Ok(v)) => vf_core::Obs::Ok(vidx_p(&v), format!("{:?}", v)), Ok(Err(e)) => vf_core::Obs::Err(format!("{:?}", e)), Err(m) => vf_core::Obs::Panic(m) }
}
pub fn run(ctx: &mut vf_core::Ctx) {
    let mut plain = |s: &str| obs_e(vf_core::guard(|| <E as core::str::FromStr>::from_str(s)));
    let mut phf = |s: &str| obs_p(vf_core::guard(|| <P as core::str::FromStr>::from_str(s)));
    let mut phf_try = |s: &str| obs_p(vf_core::guard(|| <P as core::convert::TryFrom<&str>>::try_from(s)));
    vf_core::props::c16::explore(ctx, &mut plain, &mut phf, &mut phf_try);
}
"#;
    // with a custom error function every observation also carries how often that function ran during the call
    let body = if counted_obs {
        body.replace("|s: &str| obs_e(", "|s: &str| vf_core::props::c16::counted(&mut || obs_e(")
            .replace("|s: &str| obs_p(", "|s: &str| vf_core::props::c16::counted(&mut || obs_p(")
            .replace("from_str(s)));", "from_str(s))));")
            .replace("try_from(s)));", "try_from(s))));")
    } else {
        body.to_string()
    };
    o.push_str(&body);
    o
}

/// runs one parse call and appends the number of calls of the custom error function it caused
pub fn counted(f: &mut dyn FnMut() -> Obs) -> Obs {
    let before = crate::harness::my_err_calls();
    let o = f();
    let calls = crate::harness::my_err_calls() - before;
    match o {
        Obs::Ok(i, d) => Obs::Ok(i, format!("{} [f called {}x]", d, calls)),
        Obs::Err(e) => Obs::Err(format!("{} [f called {}x]", e, calls)),
        p => p,
    }
}

pub fn explore(ctx: &mut Ctx, plain: &mut dyn FnMut(&str) -> Obs, phf: &mut dyn FnMut(&str) -> Obs, phf_try: &mut dyn FnMut(&str) -> Obs) {
    let spec = ctx.spec().clone();
    let inp = family_inputs(ctx);
    let spellings = all_spellings(&spec);
    let overlapping = ctx.program.aux["overlap"] == true;
    for s in &inp {
        ctx.state();
        ctx.transitions(3);
        let wp = refsem::parse(&spec, s);
        let want = expected_obs(&wp, &|| "VariantNotFound".to_string());
        let want = if spec.parse_err {
            // the function runs exactly once, and only for a rejected input
            match want {
                Obs::Ok(i, d) => Obs::Ok(i, format!("{} [f called 0x]", d)),
                Obs::Err(_) => Obs::Err(format!("MyErr({:?}) [f called 1x]", s)),
                p => p,
            }
        } else {
            want
        };
        let w = want.show();
        let a = plain(s);
        let b = phf(s);
        let c = phf_try(s);
        let i = format!("{:?}", s);
        // pure differential first (no reference involved), then both against the reference
        let d = ctx.expect_eq("phf-differs-from-plain", &i, &a.show(), &b.show());
        let e = ctx.expect_eq("phf-try_from-differs-from-plain", &i, &a.show(), &c.show());
        if overlapping && refsem::parse_candidates(&spec).filter(|(_, v)| refsem::matches(&spec, v, s)).count() > 1 {
            // matched by several variants: no reference answer, the two parsers must still agree
            ctx.count("ambiguous_inputs_differential_only", 1);
            ctx.outcome("ambiguous-input-differential");
            if d && e {
                ctx.nontrivial(s);
            }
            continue;
        }
        let f = ctx.expect_eq("plain-vs-reference", &i, &w, &a.show());
        match &wp {
            Parsed::Ok(vi, _) => {
                if spec.variants[*vi].default {
                    ctx.outcome("default-capture");
                } else {
                    ctx.outcome("accept");
                    if !spellings.contains(s) {
                        ctx.outcome("accept-case-folded");
                    }
                }
                if d && e && f {
                    ctx.nontrivial(s);
                }
            }
            Parsed::Err => {
                ctx.outcome("reject");
                if spellings.iter().any(|w| w.to_lowercase() == s.to_lowercase()) {
                    ctx.outcome("reject-near-miss");
                    if d && e && f {
                        ctx.nontrivial(s);
                    }
                }
            }
        }
        if ctx.want_sample() && ctx.program.idx % 89 == 0 && matches!(wp, Parsed::Ok(..)) {
            ctx.sample(json!({"program": ctx.program.label, "enum": render_enum(&spec, &["strum::EnumString"]), "input": s, "plain": a.show(), "phf": b.show(), "reference": w}));
        }
    }
}
