//! C11 — default and transparent variants capture and forward their inner value verbatim.

use super::strfam::*;
use super::*;
use crate::devs::{dev, enumerate, Dev};
use crate::harness::{Ctx, Obs};
use crate::refsem::{self, Parsed};
use crate::spec::*;
use serde_json::json;

pub fn def() -> PropDef {
    PropDef {
        id: "C11",
        mode: Mode::Run,
        programs,
        strum_features: &["derive"],
        profiles: &["dev"],
        rule: "programs: <=k deviations from a 2-variant base: a default variant at first/middle/last position (tuple or single named field; inner String or Box<str>; with and without \
               to_string), a transparent variant (tuple or single named field; inner String, &'static str, i32, f64 or a nested strum-derived enum), near-miss spellings / case \
               insensitivity / serialize_all on the ordinary variants. inputs: C01's input closure (every string not claimed by another variant is captured: empty, whitespace, case \
               variants, multi-byte, one-edit near-misses). oracle: from_str(s) == Ok(Default(s)) byte for byte; from_str(s)?.to_string() == s (or the to_string literal); for transparent \
               v: to_string / as_ref / From<&v> equal the inner value's; the whole format-spec grid applied to v equals the grid applied to the inner value (differential), likewise for the \
               default variant. non-trivial = captured inputs with whitespace / non-ASCII / case-only difference, and every padded or truncated grid cell; distinct per (program, input | variant, inner value, spec)",
        trusted_base: &["rustc / core::fmt", "derived Debug", "generated constructors", "vf-core R-parse"],
        assumptions: &[],
        required_outcomes: &["default-capture", "capture-roundtrip", "capture-whitespace", "capture-nonascii", "transparent-display", "transparent-as_ref", "transparent-static", "grid-int-flags", "grid-float-precision", "default-grid"],
    }
}

#[derive(Clone, Copy, PartialEq)]
enum Inner {
    Str,
    BoxStr,
    /// user type with `From<&str>` only (no `From<String>`), Display forwarding to the text
    Ofs,
    /// the enum's own type parameter `S` (bounds in a where clause), instantiated with &'static str
    GenS,
    SStr,
    I32,
    F64,
    Nested,
    /// user type whose INHERENT methods `as_ref` / `into` / `clone` disagree with its `AsRef<str>` / `From<&Odd> for &'static str`
    /// impls, and which has no `From<Odd> for &'static str` (a by-value conversion must still go through the reference)
    Odd,
}

fn inner_ty(i: Inner) -> FieldTy {
    match i {
        Inner::Str => FieldTy::Str,
        Inner::BoxStr => FieldTy::Raw("Box<str>".into(), "\"\"".into()),
        Inner::Ofs => FieldTy::Raw("Ofs".into(), "\"\"".into()),
        Inner::GenS => FieldTy::Raw("S".into(), "\"\"".into()),
        Inner::SStr => FieldTy::SStr,
        Inner::I32 => FieldTy::I32,
        Inner::F64 => FieldTy::Raw("f64".into(), "0.0".into()),
        Inner::Nested => FieldTy::Raw("Nested".into(), "Violet".into()),
        Inner::Odd => FieldTy::Raw("Odd".into(), "Odd(\"\")".into()),
    }
}

fn inner_values(t: &FieldTy) -> Vec<&'static str> {
    match t {
        FieldTy::Str => vec!["String::new()", "String::from(\"é x\")", "String::from(\"Hello\")"],
        FieldTy::SStr => vec!["\"\"", "\"é x\"", "\"Hello\""],
        FieldTy::I32 => vec!["0i32", "-14i32", "i32::MAX"],
        FieldTy::Raw(n, _) if n == "f64" => vec!["1.5f64", "-0.25f64"],
        FieldTy::Raw(n, _) if n == "Nested" => vec!["Nested::Violet", "Nested::Fuchsia"],
        FieldTy::Raw(n, _) if n == "Odd" => vec!["Odd(\"ReadMe.MD\")", "Odd(\"é x\")"],
        FieldTy::Raw(n, _) if n == "Box<str>" => vec!["Box::<str>::from(\"\")", "Box::<str>::from(\"é x\")"],
        FieldTy::Raw(n, _) if n == "Ofs" => vec!["Ofs::from(\"\")", "Ofs::from(\"é x\")"],
        FieldTy::Raw(n, _) if n == "S" => vec!["\"\"", "\"é x\"", "\"Hello\""],
        _ => vec![],
    }
}

fn alphabet() -> Vec<Dev> {
    let mut d: Vec<Dev> = Vec::new();
    for (pn, pos) in [("first", 0usize), ("middle", 1), ("last", 2)] {
        for named in [false, true] {
            for inner in [Inner::Str, Inner::BoxStr, Inner::Ofs] {
                for tos in [None, Some("Dflt")] {
                    if inner == Inner::Ofs && tos.is_some() {
                        continue;
                    }
                    let label = format!("default variant {} ({}, {}{})", pn, if named { "named" } else { "tuple" }, match inner { Inner::Str => "String", Inner::BoxStr => "Box<str>", _ => "user type with From<&str> only" }, if tos.is_some() { ", to_string" } else { "" });
                    d.push(dev(label, &["default"], move |s| {
                        let mut v = VariantSpec::unit("Dd");
                        v.default = true;
                        v.kind = if named { Kind::Named(vec![NamedField { name: "inner".into(), ty: inner_ty(inner), default_with: false }]) } else { Kind::Tuple(vec![inner_ty(inner)]) };
                        v.to_string = tos.map(|x| x.to_string());
                        let p = pos.min(s.variants.len());
                        s.variants.insert(p, v);
                        true
                    }));
                }
            }
        }
    }
    for (pn, first) in [("first", true), ("last", false)] {
        for named in [false, true] {
            for (iname, inner) in [("String", Inner::Str), ("&'static str", Inner::SStr), ("i32", Inner::I32), ("f64", Inner::F64), ("nested enum", Inner::Nested), ("user type with misleading inherent methods", Inner::Odd)] {
                for tos in [None, Some("Ttx"), Some("{0}")] {
                  if tos.is_some() && (named || inner != Inner::I32 && inner != Inner::Str) { continue; }
                  d.push(dev(format!("transparent variant {} ({}, {}{})", pn, if named { "named" } else { "tuple" }, iname, match tos { Some(t) => format!(", to_string={:?}", t), None => String::new() }), &["transparent"], move |s| {
                    let mut v = VariantSpec::unit("Tt");
                    v.to_string = tos.map(|t| t.to_string());
                    v.transparent = true;
                    v.kind = if named { Kind::Named(vec![NamedField { name: "f".into(), ty: inner_ty(inner), default_with: false }]) } else { Kind::Tuple(vec![inner_ty(inner)]) };
                    if first {
                        s.variants.insert(0, v);
                    } else {
                        s.variants.push(v);
                    }
                    true
                  }));
                }
            }
        }
    }
    // a retired catch-all `#[strum(disabled, default)] Legacy(String)` declared first: it does not exist for the parser, neither
    // as a second default nor as the catch-all
    d.push(dev("retired #[strum(disabled, default)] Legacy(String) declared first", &["retired"], |s| {
        let mut v = VariantSpec::unit("Legacy");
        v.default = true;
        v.disabled = true;
        v.kind = Kind::Tuple(vec![FieldTy::Str]);
        s.variants.insert(0, v);
        true
    }));
    // the keyword sits in a LATER #[strum(..)] attribute of the variant, with a foreign attribute in between
    d.push(dev("transparent variant last (tuple, String): #[strum(to_string = ..)] #[allow(..)] #[strum(transparent)]", &["transparent"], |s| {
        let mut v = VariantSpec::unit("Tt");
        v.to_string = Some("Ttx".into());
        v.transparent = true;
        v.layout = Layout::Split;
        v.kind = Kind::Tuple(vec![FieldTy::Str]);
        s.variants.push(v);
        s.syntax.push("interleaved-foreign".into());
        true
    }));
    d.push(dev("default variant last (tuple, String): #[strum(serialize = ..)] #[allow(..)] #[strum(default)]", &["default"], |s| {
        let mut v = VariantSpec::unit("Dd");
        v.default = true;
        v.serialize = vec!["dser".into()];
        v.layout = Layout::Split;
        v.kind = Kind::Tuple(vec![FieldTy::Str]);
        s.variants.push(v);
        s.syntax.push("interleaved-foreign".into());
        true
    }));
    // TWO transparent variants whose inner types differ (their arms look alike token for token, but bind different types)
    d.push(dev("two transparent variants: Ts(&'static str) first, Tn(nested enum) last", &["transparent"], |s| {
        let mut a = VariantSpec::unit("Ts");
        a.transparent = true;
        a.kind = Kind::Tuple(vec![inner_ty(Inner::SStr)]);
        let mut b = VariantSpec::unit("Tn");
        b.transparent = true;
        b.kind = Kind::Tuple(vec![inner_ty(Inner::Nested)]);
        s.variants.insert(0, a);
        s.variants.push(b);
        true
    }));
    d.push(dev("two transparent variants: To { f: user type } first, Tn { f: nested enum } last (same field name)", &["transparent"], |s| {
        let mut a = VariantSpec::unit("To");
        a.transparent = true;
        a.kind = Kind::Named(vec![NamedField { name: "f".into(), ty: inner_ty(Inner::Odd), default_with: false }]);
        let mut b = VariantSpec::unit("Tn");
        b.transparent = true;
        b.kind = Kind::Named(vec![NamedField { name: "f".into(), ty: inner_ty(Inner::Nested), default_with: false }]);
        s.variants.insert(0, a);
        s.variants.push(b);
        true
    }));
    // a default variant with a `serialize` literal but no to_string still prints what it captured
    for (pn, first) in [("first", true), ("last", false)] {
        d.push(dev(format!("default variant {} (tuple, String, serialize=[\"dser\"])", pn), &["default"], move |s| {
            let mut v = VariantSpec::unit("Dd");
            v.default = true;
            v.kind = Kind::Tuple(vec![FieldTy::Str]);
            v.serialize = vec!["dser".into()];
            if first {
                s.variants.insert(0, v);
            } else {
                s.variants.push(v);
            }
            true
        }));
    }
    // the transparent field is the enum's own type parameter, bounded only in a where clause
    for named in [false, true] {
        d.push(dev(format!("transparent variant last ({}, generic S where S: AsRef<str> + Display + Default)", if named { "named" } else { "tuple" }), &["transparent", "gen"], move |s| {
            let mut v = VariantSpec::unit("Tt");
            v.transparent = true;
            v.kind = if named { Kind::Named(vec![NamedField { name: "f".into(), ty: inner_ty(Inner::GenS), default_with: false }]) } else { Kind::Tuple(vec![inner_ty(Inner::GenS)]) };
            s.variants.push(v);
            s.generics = vec![Generic::Type { name: "S".into(), bounds: "".into() }];
            s.where_clause = Some("S: AsRef<str> + ::core::fmt::Display + Default".into());
            true
        }));
    }
    for l in [" x", "X", "é", "Tt"] {
        d.push(dev(format!("Kk.serialize={:?}", l), &["ser"], move |s| {
            if let Some(v) = s.variants.iter_mut().find(|v| v.ident == "Kk") {
                v.serialize.push(l.to_string());
                true
            } else {
                false
            }
        }));
    }
    // a DISABLED variant declared before / after the catch-all: its names are ordinary unmatched input
    for with_ser in [false, true] {
        d.push(dev(format!("Kk.disabled{}", if with_ser { " + serialize=\"gone\"" } else { "" }), &["dis", "ser"], move |s| {
            if let Some(v) = s.variants.iter_mut().find(|v| v.ident == "Kk") {
                v.disabled = true;
                if with_ser {
                    v.serialize.push("gone".into());
                }
                true
            } else {
                false
            }
        }));
    }
    d.push(dev("Kk.ascii_case_insensitive", &["aci"], |s| {
        if let Some(v) = s.variants.iter_mut().find(|v| v.ident == "Kk") {
            v.aci = Some(Aci::Bare);
        }
        true
    }));
    d.push(dev("enum.ascii_case_insensitive", &["eaci"], |s| {
        s.aci = true;
        true
    }));
    // enum-level attributes that must not reach a forwarding variant: the prefix is not printed before the inner value, the
    // custom error function never runs when a default variant accepts everything
    d.push(dev("prefix=\"p/\"", &["prefix"], |s| {
        s.prefix = Some("p/".into());
        true
    }));
    d.push(dev("parse_err_ty/fn (custom error)", &["perr"], |s| {
        if !s.generics.is_empty() {
            return false;
        }
        s.parse_err = true;
        true
    }));
    d.push(dev("serialize_all=\"snake_case\"", &["style"], |s| {
        s.serialize_all = Some("snake_case".into());
        true
    }));
    d
}

fn domain(s: &EnumSpec) -> bool {
    parse_domain(s) && s.variants.iter().any(|v| v.default || v.transparent)
}

pub fn programs(tier: Tier) -> ProgramSet {
    let k = if tier == Tier::Quick { 2 } else { 3 };
    let (specs, ex) = enumerate(&EnumSpec::base(2), "B2", &alphabet(), k, &domain);
    let mut out = Vec::new();
    for e in specs {
        let source = render(&e.spec);
        out.push(Program { idx: 0, label: e.label, k: e.k, spec: e.spec, aux: json!(null), source });
    }
    let mut exm = std::collections::BTreeMap::new();
    exm.insert("no default/transparent variant, or overlapping spellings".to_string(), ex as u64);
    ProgramSet { programs: finish(out), excluded: exm, bounds: json!({"N_base": 2, "k_max": k, "inner_types": ["String", "Box<str>", "user type with From<&str> only", "&'static str", "i32", "f64", "nested derived enum", "the enum's own type parameter (where-clause bounds)"], "grid": "as C17"}) }
}

fn transparent_inner(spec: &EnumSpec) -> Option<FieldTy> {
    spec.variants.iter().find(|v| v.transparent).map(|v| match &v.kind {
        Kind::Tuple(f) => f[0].clone(),
        Kind::Named(f) => f[0].ty.clone(),
        Kind::Unit => FieldTy::U8,
    })
}

pub fn render(spec: &EnumSpec) -> String {
    let tin = transparent_inner(spec);
    let mut derives = vec!["Debug", "PartialEq", "strum::EnumString", "strum::Display"];
    let caps = |t: &FieldTy| -> (bool, bool) {
        match t {
            FieldTy::Str => (true, false),
            FieldTy::SStr => (true, true),
            FieldTy::Raw(n, _) if n == "S" => (true, false),
            FieldTy::Raw(n, _) if n == "Nested" => (true, true),
            FieldTy::Raw(n, _) if n == "Odd" => (true, true),
            _ => (false, false),
        }
    };
    let own_inner = |v: &VariantSpec| -> FieldTy {
        match &v.kind {
            Kind::Tuple(f) => f[0].clone(),
            Kind::Named(f) => f[0].ty.clone(),
            Kind::Unit => FieldTy::U8,
        }
    };
    // with several transparent variants every one of them has to support the derive
    let (has_asref, has_static) = spec.variants.iter().filter(|v| v.transparent).map(|v| caps(&own_inner(v))).fold((true, true), |a, b| (a.0 && b.0, a.1 && b.1));
    let _ = &tin;
    // a Box<str> default variant has no bearing on AsRefStr / IntoStaticStr (they print the name)
    if has_asref {
        derives.push("strum::AsRefStr");
    }
    if has_static {
        derives.push("strum::IntoStaticStr");
    }
    let mut body = String::new();
    body.push_str("let (w, p) = vf_core::props::c17::grid_bounds(ctx);\n");
    body.push_str("    let mut tobs: Vec<(usize, String, String, Result<Vec<(String, String)>, String>, Vec<(String, String)>)> = Vec::new();\n");
    for (vi, v) in spec.variants.iter().enumerate() {
        if v.transparent {
            let t = own_inner(v);
            for val in inner_values(&t) {
                let ctor = render_ctor(spec, vi, &[val.to_string()]);
                body.push_str(&format!("    tobs.push(({vi}, {vs:?}.to_string(), \"transparent-display\".to_string(), vf_core::guard(|| {{ let v: EC = {ctor}; let mut g = vf_core::fmtgrid::fmt_grid(&v, w, p); g.push((\"to_string\".into(), v.to_string())); g }}), {{ let i = {val}; let mut g = vf_core::fmtgrid::fmt_grid(&i, w, p); g.push((\"to_string\".into(), i.to_string())); g }}));\n", vi = vi, vs = val, ctor = ctor, val = val));
                if has_asref {
                    body.push_str(&format!("    tobs.push(({vi}, {vs:?}.to_string(), \"transparent-as_ref\".to_string(), vf_core::guard(|| {{ let v: EC = {ctor}; vec![(\"as_ref\".to_string(), AsRef::<str>::as_ref(&v).to_string())] }}), {{ let i = {val}; vec![(\"as_ref\".to_string(), AsRef::<str>::as_ref(&i).to_string())] }}));\n", vi = vi, vs = val, ctor = ctor, val = val));
                }
                if has_static {
                    body.push_str(&format!("    tobs.push(({vi}, {vs:?}.to_string(), \"transparent-static\".to_string(), vf_core::guard(|| {{ let v: EC = {ctor}; vec![(\"From<&E>\".to_string(), <&'static str as From<&EC>>::from(&v).to_string()), (\"From<E>\".to_string(), <&'static str as From<EC>>::from({ctor}).to_string())] }}), {{ let i = {val}; let s: &'static str = {conv}; vec![(\"From<&E>\".to_string(), s.to_string()), (\"From<E>\".to_string(), s.to_string())] }}));\n", vi = vi, vs = val, ctor = ctor, val = val, conv = if t == FieldTy::SStr { "i" } else { "From::from(&i)" }));
                }
            }
        }
        if v.default && v.to_string.is_none() && !v.disabled {
            let t = match &v.kind {
                Kind::Tuple(f) => f[0].clone(),
                Kind::Named(f) => f[0].ty.clone(),
                Kind::Unit => FieldTy::Str,
            };
            for val in inner_values(&t) {
                let ctor = render_ctor(spec, vi, &[val.to_string()]);
                body.push_str(&format!("    tobs.push(({vi}, {vs:?}.to_string(), \"default-grid\".to_string(), vf_core::guard(|| {{ let v: EC = {ctor}; vf_core::fmtgrid::fmt_grid(&v, w, p) }}), {{ let i = {val}; vf_core::fmtgrid::fmt_grid(&i, w, p) }}));\n", vi = vi, vs = val, ctor = ctor, val = val));
            }
        }
    }
    body.push_str("    let mut rt = |s: &str| vf_core::guard(|| <EC as core::str::FromStr>::from_str(s).ok().map(|v| v.to_string()));\n");
    body.push_str("    vf_core::props::c11::explore(ctx, &mut from_str, &mut try_from, &mut rt, tobs);");
    let nested = "#[derive(Debug, Clone, PartialEq, Default, strum::Display, strum::AsRefStr, strum::IntoStaticStr, strum::EnumString)]\npub enum Nested { #[default] Violet, #[strum(to_string = \"fu chsia é\")] Fuchsia }\n\
#[derive(Clone, PartialEq)]\npub struct Ofs(String);\nimpl From<&str> for Ofs { fn from(s: &str) -> Ofs { Ofs(s.to_string()) } }\n\
impl core::fmt::Debug for Ofs { fn fmt(&self, f: &mut core::fmt::Formatter<'_>) -> core::fmt::Result { core::fmt::Debug::fmt(&self.0, f) } }\n\
impl core::fmt::Display for Ofs { fn fmt(&self, f: &mut core::fmt::Formatter<'_>) -> core::fmt::Result { core::fmt::Display::fmt(&self.0, f) } }\n\
#[derive(Debug, PartialEq, Default)]\npub struct Odd(pub &'static str);\n\
#[allow(dead_code, clippy::all)]\nimpl Odd { pub fn as_ref(&self) -> &str { \"inherent as_ref\" } pub fn into(self) -> &'static str { \"inherent into\" } pub fn clone(&self) -> &'static str { \"inherent clone\" } pub fn fmt(&self) -> &'static str { \"inherent fmt\" } }\n\
impl AsRef<str> for Odd { fn as_ref(&self) -> &str { self.0 } }\n\
impl From<&Odd> for &'static str { fn from(o: &Odd) -> &'static str { o.0 } }\n\
impl core::fmt::Display for Odd { fn fmt(&self, f: &mut core::fmt::Formatter<'_>) -> core::fmt::Result { core::fmt::Display::fmt(self.0, f) } }\n";
    format!("{}{}", nested, render_parse_module(spec, &derives, &body))
}

type TObs = Vec<(usize, String, String, Result<Vec<(String, String)>, String>, Vec<(String, String)>)>;

pub fn explore(ctx: &mut Ctx, from_str: &mut dyn FnMut(&str) -> Obs, try_from: &mut dyn FnMut(&str) -> Obs, rt: &mut dyn FnMut(&str) -> Result<Option<String>, String>, tobs: TObs) {
    let spec = ctx.spec().clone();
    let inp = family_inputs(ctx);
    // the Debug text of a Box<str> / String payload is the same, so R-parse covers the capture
    let custom = spec.parse_err;
    explore_parse(ctx, "", &inp, from_str, try_from, &|s| if custom { format!("MyErr({:?})", s) } else { "VariantNotFound".to_string() });
    let dflt = spec.variants.iter().enumerate().find(|(_, v)| v.default && !v.disabled);
    if let Some((di, dv)) = dflt {
        for s in &inp {
            if let Parsed::Ok(i, _) = refsem::parse(&spec, s) {
                if i != di {
                    continue;
                }
                ctx.transition();
                // a default variant WITH to_string is an ordinary named variant for Display (prefix + literal); without it the
                // captured input is printed as it is (no prefix)
                let want = match &dv.to_string {
                    Some(t) => format!("{}{}", spec.prefix.clone().unwrap_or_default(), t),
                    None => s.clone(),
                };
                let got = rt(s);
                let ok = ctx.expect_eq("capture-roundtrip", &format!("E::from_str({:?})?.to_string()", s), &format!("{:?}", Ok::<_, String>(Some(want))), &format!("{:?}", got));
                ctx.outcome("capture-roundtrip");
                let ws = s.chars().any(|c| c.is_whitespace());
                let na = !s.is_ascii();
                if ws {
                    ctx.outcome("capture-whitespace");
                }
                if na {
                    ctx.outcome("capture-nonascii");
                }
                if ok && (ws || na) {
                    ctx.nontrivial(&("rt", s.clone()));
                }
            }
        }
    }
    for (vi, val, what, got, want) in tobs {
        let who = format!("variant {} ({}) holding {}", vi, spec.variants[vi].ident, val);
        match got {
            Err(m) => ctx.violation(&format!("{}-panic", what), &who, "no panic", &m),
            Ok(g) => {
                ctx.outcome(match what.as_str() {
                    "transparent-display" => "transparent-display",
                    "transparent-as_ref" => "transparent-as_ref",
                    "transparent-static" => "transparent-static",
                    _ => "default-grid",
                });
                if g.len() != want.len() {
                    ctx.violation(&what, &who, &format!("{} observations", want.len()), &format!("{}", g.len()));
                    continue;
                }
                let plain = want.first().map(|x| x.1.clone()).unwrap_or_default();
                for ((sp, gv), (_, wv)) in g.iter().zip(want.iter()) {
                    ctx.transition();
                    let ok = ctx.expect_eq(&what, &format!("{} via {}", who, sp), wv, gv);
                    if *wv != plain {
                        if ok {
                            ctx.nontrivial(&(vi, val.clone(), what.clone(), sp.clone()));
                        }
                        if val.contains("i32") && (sp.contains('+') || sp.contains("{:0")) {
                            ctx.outcome("grid-int-flags");
                        }
                        if val.contains("f64") && sp.contains('.') {
                            ctx.outcome("grid-float-precision");
                        }
                    }
                }
            }
        }
    }
    if ctx.want_sample() && ctx.program.idx % 47 == 0 {
        ctx.sample(json!({"program": ctx.program.label, "enum": render_enum(&spec, &["strum::EnumString", "strum::Display"])}));
    }
}
