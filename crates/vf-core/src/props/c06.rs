//! C06 — from_repr(d) is Some(V) iff d is the discriminant rustc gives enabled variant V.

use super::*;
use crate::devs::{dev, enumerate, Dev};
use crate::harness::Ctx;
use crate::refsem;
use crate::spec::*;
use serde_json::json;

pub fn def() -> PropDef {
    PropDef {
        id: "C06",
        mode: Mode::Run,
        programs,
        strum_features: &["derive"],
        profiles: &["dev"],
        rule: "programs: N=1..Nmax variants x every subset of disabled positions x <=k deviations (repr type, per-variant explicit \
               discriminant: gap literal, `1 + 2`, `1 << 2`, `6 | 1`, a const, negative, descending, type MIN/MAX; variant kind), kept when rustc's \
               discriminant rule yields unique in-range values. inputs: EVERY value of the repr type for 8/16-bit reprs, otherwise \
               0, +-1, MIN, MAX, every declared discriminant +-1 and 2^k+-1 for all k. oracle: from_repr(d) == the enabled variant \
               whose reference discriminant is d; the reference discriminants are cross-checked against `v as R` / the tag of a \
               repr(int) enum. non-trivial = a d that hits a declared (enabled or disabled) discriminant or its +-1 neighbour; \
               distinct per (program, d)",
        trusted_base: &["rustc (`as` casts, enum tag layout of repr(int) enums)", "derived Debug", "generated vidx() match", "vf-core R-disc"],
        assumptions: &["wider-than-16-bit reprs are probed at boundary values only", "negative discriminants only with a signed repr (documented domain)"],
        required_outcomes: &["some", "none", "disabled-discriminant-rejected", "full-domain-sweep", "boundary-sweep"],
    }
}

pub const REPRS: [&str; 10] = ["u8", "i8", "u16", "i16", "u32", "i32", "u64", "i64", "usize", "isize"];

pub fn repr_range(r: &str) -> (i128, i128) {
    match r {
        "u8" => (0, u8::MAX as i128),
        "i8" => (i8::MIN as i128, i8::MAX as i128),
        "u16" => (0, u16::MAX as i128),
        "i16" => (i16::MIN as i128, i16::MAX as i128),
        "u32" => (0, u32::MAX as i128),
        "i32" => (i32::MIN as i128, i32::MAX as i128),
        "u64" | "usize" => (0, u64::MAX as i128),
        "i64" | "isize" => (i64::MIN as i128, i64::MAX as i128),
        _ => (0, u64::MAX as i128),
    }
}

/// value of a discriminant expression of the palette
pub fn disc_value(text: &str) -> Option<i128> {
    let t = text.trim();
    // a negated parenthesised expression / a negated constant (unary expressions that are not literal patterns)
    if let Some(inner) = t.strip_prefix("-(").and_then(|r| r.strip_suffix(')')) {
        return disc_value(inner).map(|v| -v);
    }
    if let Some(rest) = t.strip_prefix("-K") {
        return disc_value(&format!("K{}", rest)).map(|v| -v);
    }
    // binary expressions of the palette: `a OP b` (operands are atoms)
    for (op, f) in [
        (" << ", (|a: i128, b: i128| a << b) as fn(i128, i128) -> i128),
        (" >> ", |a, b| a >> b),
        (" | ", |a, b| a | b),
        (" & ", |a, b| a & b),
        (" ^ ", |a, b| a ^ b),
        (" + ", |a, b| a + b),
        (" * ", |a, b| a * b),
    ] {
        if let Some((a, b)) = t.split_once(op) {
            return Some(f(disc_value(a)?, disc_value(b)?));
        }
    }
    if let Some(rest) = t.strip_prefix("KM") {
        return rest.parse::<i128>().ok().map(|v| -v);
    }
    if let Some(rest) = t.strip_prefix('K') {
        return rest.parse::<i128>().ok();
    }
    if let Some(rest) = t.strip_prefix('-') {
        return rest.trim().parse::<i128>().ok().map(|v| -v);
    }
    if let Some(h) = t.strip_prefix("0x") {
        return i128::from_str_radix(&h.replace('_', ""), 16).ok();
    }
    t.parse::<i128>().ok()
}

/// R-disc: rustc's rule over ALL declared variants (explicit, else previous + 1, first 0)
pub fn discriminants(spec: &EnumSpec) -> Option<Vec<i128>> {
    let mut out = Vec::new();
    let mut prev: Option<i128> = None;
    for v in &spec.variants {
        let d = match &v.disc {
            Some(t) => disc_value(t)?,
            None => prev.map(|p| p + 1).unwrap_or(0),
        };
        out.push(d);
        prev = Some(d);
    }
    Some(out)
}

/// the integer type named by the enum's #[repr] hints (`C, u8` / `align(4), u8` / `u8;align(4)`), usize if none
pub fn repr_of(spec: &EnumSpec) -> String {
    if let Some(r) = &spec.repr {
        for tok in r.split(|c: char| !(c.is_alphanumeric() || c == '_')) {
            if REPRS.contains(&tok) {
                return tok.to_string();
            }
        }
    }
    "usize".into()
}

/// does the enum name an integer type in its repr hints?
pub fn has_int_repr(spec: &EnumSpec) -> bool {
    spec.repr.as_ref().map(|r| r.split(|c: char| !(c.is_alphanumeric() || c == '_')).any(|t| REPRS.contains(&t))).unwrap_or(false)
}

fn in_domain(spec: &EnumSpec) -> bool {
    let ds = match discriminants(spec) {
        Some(d) => d,
        None => return false,
    };
    let r = repr_of(spec);
    // repr(C) without an integer type: the tag is C's int-sized by default, discriminants are kept within 0..=i32::MAX
    let is_c = spec.repr.as_ref().map(|r| r.split(|c: char| !(c.is_alphanumeric() || c == '_')).any(|t| t == "C")).unwrap_or(false);
    let (lo, hi) = if !has_int_repr(spec) { (0, if is_c { i32::MAX as i128 } else { isize::MAX as i128 }) } else { repr_range(&r) };
    if ds.iter().any(|d| *d < lo || *d > hi) {
        return false;
    }
    let mut s = ds.clone();
    s.sort();
    s.dedup();
    if s.len() != ds.len() {
        return false;
    }
    // rustc: explicit discriminants on an enum with data need a primitive repr
    let has_data = spec.variants.iter().any(|v| !v.kind.is_unit());
    let has_explicit = spec.variants.iter().any(|v| v.disc.is_some());
    if has_data && has_explicit && !has_int_repr(spec) {
        return false;
    }
    // rustc: `repr(C, int)` is only meaningful (and only accepted without a conflict) on enums with fields
    if spec.repr.as_deref().map(|r| r.starts_with("C,")).unwrap_or(false) && has_int_repr(spec) && !has_data {
        return false;
    }
    // a typed const can only be used when the discriminant type is named by #[repr]
    if !has_int_repr(spec) && !consts_used(spec).is_empty() {
        return false;
    }
    true
}

fn consts_used(spec: &EnumSpec) -> Vec<String> {
    let mut v = Vec::new();
    for x in &spec.variants {
        if let Some(d) = &x.disc {
            for tok in d.split(|c: char| !(c.is_alphanumeric())) {
                if tok.starts_with('K') && !v.contains(&tok.to_string()) {
                    v.push(tok.to_string());
                }
            }
        }
    }
    v
}

pub fn programs(tier: Tier) -> ProgramSet {
    let (nmax, k, reprs, full): (usize, usize, Vec<&str>, bool) = match tier {
        Tier::Quick => (3, 2, REPRS.to_vec(), false),
        Tier::Thorough => (4, 2, REPRS.to_vec(), true),
    };
    let mut out = Vec::new();
    let mut excluded = 0u64;
    for n in 1..=nmax + if full { 1 } else { 0 } {
        let k_here = if n > nmax { 1 } else { k };
        for mask in 0u32..(1 << n) {
            let mut base = EnumSpec::base(n);
            for i in 0..n {
                if mask & (1 << i) != 0 {
                    base.variants[i].disabled = true;
                }
            }
            let mut devs: Vec<Dev> = Vec::new();
            for r in &reprs {
                let r2 = r.to_string();
                devs.push(dev(format!("repr({})", r), &["repr"], move |s| {
                    s.repr = Some(r2.clone());
                    true
                }));
            }
            // several repr hints in one attribute / in two attributes: the integer type must still be found
            // .. and hints WITHOUT an integer type leave the argument type at usize (repr(C) does not make it a C int)
            for r in ["C, u8", "align(4), u8", "i16, align(8)", "u8;align(2)", "align(2);i8", "C", "C, align(8)", "align(4);C", "align(2)"] {
                let r2 = r.to_string();
                devs.push(dev(format!("repr({})", r.replace(';', ")] #[repr(")), &["repr"], move |s| {
                    s.repr = Some(r2.clone());
                    true
                }));
            }
            for i in 0..n {
                let mut choices: Vec<String> = vec![
                    format!("{}", 5 * (i + 1) + 2), // gap
                    "1 + 2".into(),
                    "K10".into(),
                    format!("-{}", 3 + i),          // negative
                    format!("{}", 40 - 7 * i),      // descending when used on several variants
                ];
                // values that only fit 64-bit discriminant types, written as expressions over unsuffixed literals
                choices.extend(["1 << 31".to_string(), "0xFFFF << 16".into(), "1 << 40".into()]);
                // unary expressions other than a negated literal
                choices.extend(["-K10".to_string(), "-(1 << 2)".into()]);
                if full {
                    choices.extend(["127".to_string(), "-128".into(), "255".into(), "32767".into(), "-32768".into(), "65535".into(), "KM5".into(), "K10 + 1".into(), "1 << 2".into(), "6 | 1".into(), "12 & 10".into(), "2 * 3".into(), "5 ^ 1".into()]);
                } else {
                    choices.extend(["-128".to_string(), "254".into(), "1 << 2".into()]);
                }
                for c in choices {
                    let c2 = c.clone();
                    devs.push(dev(format!("v{} = {}", i, c), &[&format!("disc{}", i)], move |s| {
                        s.variants[i].disc = Some(c2.clone());
                        true
                    }));
                }
                // an explicit discriminant on a DATA variant needs a repr: three features that are only legal together, as one deviation
                for (r, val) in [("u8", 20 + 5 * i as i64), ("i16", -(300 + i as i64))] {
                    devs.push(dev(format!("repr({}) + v{}.kind=named{{x, y}} + v{} = {}", r, i, i, val), &["repr", &format!("kind{}", i), &format!("disc{}", i)], move |s| {
                        s.repr = Some(r.to_string());
                        s.variants[i].kind = Kind::Named(vec![NamedField { name: "x".into(), ty: FieldTy::U8, default_with: false }, NamedField { name: "y".into(), ty: FieldTy::Str, default_with: false }]);
                        s.variants[i].disc = Some(val.to_string());
                        true
                    }));
                }
                devs.push(dev(format!("v{}.kind=tuple1", i), &[&format!("kind{}", i)], move |s| {
                    s.variants[i].kind = Kind::Tuple(vec![FieldTy::U8]);
                    true
                }));
                if full {
                    devs.push(dev(format!("v{}.kind=named1", i), &[&format!("kind{}", i)], move |s| {
                        s.variants[i].kind = Kind::Named(vec![NamedField { name: "x".into(), ty: FieldTy::Str, default_with: false }]);
                        true
                    }));
                }
            }
            devs.extend(crate::devs::rich_generic_devs(false));
            devs.extend(crate::devs::syntax_devs(false, false, true, false).into_iter().filter(|d| d.label.contains("doc(hidden)")));
            devs.extend(crate::devs::context_devs());
            devs.extend(crate::devs::rebound_prelude_devs());
            devs.extend(crate::devs::rare_shape_devs(n, true));
            let dis: Vec<String> = (0..n).filter(|i| mask & (1 << i) != 0).map(|i| i.to_string()).collect();
            let label = format!("B{} disabled={{{}}}", n, dis.join(","));
            let (specs, ex) = enumerate(&base, &label, &devs, k_here, &in_domain);
            excluded += ex as u64;
            for e in specs {
                let source = render(&e.spec);
                out.push(Program { idx: 0, label: e.label, k: e.k, spec: e.spec, aux: json!(null), source });
            }
        }
    }
    // SCALE: many variants (implicit chain), at and around powers of two; a repr(u8) enum that uses the whole type
    for (n, repr, dis) in [(17usize, None, false), (33, Some("u8"), true), (70, Some("i16"), false), (256, Some("u8"), false), (100, Some("i8"), false)] {
        let mut spec = EnumSpec::base(0);
        spec.repr = repr.map(|r: &str| r.to_string());
        for i in 0..n {
            let mut v = VariantSpec::unit(&format!("V{}", i));
            if dis && i % 5 == 2 {
                v.disabled = true;
            }
            spec.variants.push(v);
        }
        if repr == Some("i8") {
            spec.variants[0].disc = Some("-50".into()); // -50 ..= 49
        }
        if in_domain(&spec) {
            let source = render(&spec);
            out.push(Program { idx: 0, label: format!("SCALE: {} variants, repr {:?}{}", n, repr, if dis { ", every 5th disabled" } else { "" }), k: 1, spec, aux: json!(null), source });
        }
    }
    let mut ex = std::collections::BTreeMap::new();
    ex.insert("duplicate/out-of-range discriminant or explicit discriminant on data enum without repr".to_string(), excluded);
    ProgramSet {
        programs: finish(out),
        excluded: ex,
        bounds: json!({"N_max": nmax, "extra_level_N": if full {nmax+1} else {0}, "k_max": k, "reprs": reprs, "disabled_subsets": "all 2^N",
            "inputs_8_16_bit": "every value of the type", "inputs_wide": "0, +-1, MIN, MAX, every declared discriminant +-1, 2^k +-1 for all k"}),
    }
}

pub fn render(spec: &EnumSpec) -> String {
    let r = repr_of(spec);
    let mut o = String::new();
    for c in consts_used(spec) {
        o.push_str(&format!("const {}: {} = {};\n", c, if !has_int_repr(spec) { "isize".to_string() } else { r.clone() }, disc_value(&c).unwrap()));
    }
    o.push_str(&render_enum(spec, &["Debug", "strum::FromRepr"]));
    o.push_str(&format!("type EC = {}{};\n", spec.name, spec.generics_inst()));
    o.push_str(&render_vidx(spec, "EC", "vidx"));
    let fieldless = spec.variants.iter().all(|v| v.kind.is_unit());
    // discriminants as the compiler sees them
    o.push_str("fn compiler_discs() -> Vec<Option<i128>> {\n    vec![\n");
    for (i, v) in spec.variants.iter().enumerate() {
        if fieldless {
            o.push_str(&format!("        Some((EC::{} as {}) as i128),\n", v.ident, r));
        } else if has_int_repr(spec) {
            let fields: Vec<String> = (0..v.kind.nfields()).map(|_| "Default::default()".to_string()).collect();
            o.push_str(&format!(
                "        {{ let v: EC = {}; Some(unsafe {{ *(&v as *const EC as *const {}) }} as i128) }},\n",
                render_ctor(spec, i, &fields),
                r
            ));
        } else {
            o.push_str("        None,\n");
        }
    }
    o.push_str("    ]\n}\n");
    // the docs: `const` "when there is no additional data on any of the variants" (disabled ones included)
    if fieldless {
        o.push_str("const _CONST_CALLABLE: Option<EC> = EC::from_repr(0);\n");
    }
    o.push_str(&format!(
        r#"pub fn run(ctx: &mut vf_core::Ctx) {{
    let discs = compiler_discs();
    vf_core::props::c06::explore(ctx, discs, &mut |d: i128| {{
        let x: {r} = match <{r} as core::convert::TryFrom<i128>>::try_from(d) {{ Ok(x) => x, Err(_) => return Err("harness: d out of range".to_string()) }};
        vf_core::guard(|| EC::from_repr(x).map(|v| (vidx(&v), format!("{{:?}}", v))))
    }});
}}
"#,
        r = r
    ));
    o
}

type Got = Result<Option<(usize, String)>, String>;

pub fn explore(ctx: &mut Ctx, compiler_discs: Vec<Option<i128>>, f: &mut dyn FnMut(i128) -> Got) {
    let spec = ctx.spec().clone();
    let r = repr_of(&spec);
    let ds = discriminants(&spec).expect("in domain");
    // cross-check the reference discriminants against the compiler
    for (i, cd) in compiler_discs.iter().enumerate() {
        if let Some(cd) = cd {
            ctx.eval();
            if *cd != ds[i] {
                ctx.machinery(format!("reference discriminant of variant {} is {} but rustc says {} — reference bug", i, ds[i], cd));
                return;
            }
        }
    }
    let (lo, hi) = repr_range(&r);
    let small = matches!(r.as_str(), "u8" | "i8" | "u16" | "i16");
    let mut inputs: Vec<i128> = Vec::new();
    if small {
        inputs.extend(lo..=hi);
        ctx.outcome("full-domain-sweep");
    } else {
        let mut push = |x: i128| {
            if x >= lo && x <= hi && !inputs.contains(&x) {
                inputs.push(x);
            }
        };
        for x in [0, 1, -1, lo, hi, lo + 1, hi - 1] {
            push(x);
        }
        for d in &ds {
            for x in [*d - 1, *d, *d + 1] {
                push(x);
            }
        }
        for k in 0..64 {
            let p = 1i128 << k;
            for x in [p - 1, p, p + 1, -p - 1, -p, -p + 1] {
                push(x);
            }
        }
        ctx.outcome("boundary-sweep");
    }
    let expect = |d: i128| -> Option<(usize, String)> {
        for (i, v) in spec.variants.iter().enumerate() {
            if !v.disabled && ds[i] == d {
                return Some((i, refsem::default_debug(v)));
            }
        }
        None
    };
    for d in inputs {
        ctx.state();
        ctx.transition();
        let want = expect(d);
        let got = f(d);
        let near = ds.iter().any(|x| (x - d).abs() <= 1);
        let w = format!("{:?}", Ok::<_, String>(want.clone()));
        let g = format!("{:?}", got);
        let input = format!("E::from_repr({}{})", d, r);
        if ctx.expect_eq("from_repr", &input, &w, &g) && near {
            ctx.nontrivial(&d);
        }
        match &want {
            Some(_) => ctx.outcome("some"),
            None => {
                ctx.outcome("none");
                if spec.variants.iter().enumerate().any(|(i, v)| v.disabled && ds[i] == d) {
                    ctx.outcome("disabled-discriminant-rejected");
                }
            }
        }
        if ctx.want_sample() && want.is_some() && ctx.program.idx % 53 == 0 {
            ctx.sample(json!({"program": ctx.program.label, "enum": render_enum(&spec, &["strum::FromRepr"]), "input": input, "expected": w, "observed": g}));
        }
    }
}
