//! Input generators (DESIGN.md §3.3). All exhaustive within their definition, deterministic.

use std::collections::HashSet;

pub fn swap_ascii_case(c: char) -> char {
    if c.is_ascii_lowercase() {
        c.to_ascii_uppercase()
    } else if c.is_ascii_uppercase() {
        c.to_ascii_lowercase()
    } else {
        c
    }
}

/// per-program alphabet: characters of the short spellings and their ASCII case swaps, then the
/// fixed extras, truncated to `max` symbols
pub fn alphabet(spellings: &[String], max: usize) -> Vec<char> {
    let mut out: Vec<char> = Vec::new();
    let mut push = |c: char, out: &mut Vec<char>| {
        if !out.contains(&c) && out.len() < max {
            out.push(c);
        }
    };
    let mut sorted: Vec<&String> = spellings.iter().collect();
    sorted.sort_by_key(|s| s.chars().count());
    for s in sorted.iter().filter(|s| s.chars().count() <= 3) {
        for c in s.chars() {
            push(c, &mut out);
            push(swap_ascii_case(c), &mut out);
        }
    }
    for c in ['x', 'X', ' ', 'é', '_', '-', 'É', '1', 'K', '\u{212A}', 'a', 'A'] {
        push(c, &mut out);
    }
    out
}

/// every string of length 1..=l over sigma, breadth first
pub fn trie(sigma: &[char], l: usize) -> Vec<String> {
    let mut out = Vec::new();
    let mut level: Vec<String> = vec![String::new()];
    for _ in 0..l {
        let mut next = Vec::with_capacity(level.len() * sigma.len());
        for p in &level {
            for c in sigma {
                let mut s = p.clone();
                s.push(*c);
                next.push(s);
            }
        }
        out.extend(next.iter().cloned());
        level = next;
    }
    out
}

/// all 2^k ASCII case flips of w (only the first `maxk` ASCII letters are flipped)
pub fn flips(w: &str, maxk: usize) -> Vec<String> {
    let cs: Vec<char> = w.chars().collect();
    let all: Vec<usize> = cs.iter().enumerate().filter(|(_, c)| c.is_ascii_alphabetic()).map(|(i, _)| i).collect();
    // more letters than the bound: flip the first and the last maxk/2 letters (long spellings often differ at the end)
    let pos: Vec<usize> = if all.len() <= maxk {
        all
    } else {
        let h = maxk / 2;
        let mut p: Vec<usize> = all[..h].to_vec();
        p.extend_from_slice(&all[all.len() - (maxk - h)..]);
        p
    };
    let mut out = Vec::with_capacity(1 << pos.len());
    for mask in 0u32..(1u32 << pos.len()) {
        let mut v = cs.clone();
        for (b, &p) in pos.iter().enumerate() {
            if mask & (1 << b) != 0 {
                v[p] = swap_ascii_case(v[p]);
            }
        }
        out.push(v.into_iter().collect());
    }
    out
}

/// every deletion, substitution and insertion of a symbol of sigma
pub fn edit1(w: &str, sigma: &[char]) -> Vec<String> {
    let cs: Vec<char> = w.chars().collect();
    let mut out = Vec::new();
    for i in 0..cs.len() {
        let mut v = cs.clone();
        v.remove(i);
        out.push(v.into_iter().collect());
        for &c in sigma {
            if c != cs[i] {
                let mut v = cs.clone();
                v[i] = c;
                out.push(v.into_iter().collect());
            }
        }
    }
    for i in 0..=cs.len() {
        for &c in sigma {
            let mut v = cs.clone();
            v.insert(i, c);
            out.push(v.into_iter().collect());
        }
    }
    out
}

pub fn pad(w: &str, prefix: Option<&str>) -> Vec<String> {
    let mut out = vec![format!(" {}", w), format!("{} ", w), format!("{}{}", w, w), format!("{}\n", w), format!("\t{}", w)];
    if let Some(p) = prefix {
        out.push(format!("{}{}", p, w));
    }
    out
}

/// Unicode look-alike / non-ASCII other-case substitutions, one position at a time
pub fn look(w: &str) -> Vec<String> {
    let cs: Vec<char> = w.chars().collect();
    let mut out = Vec::new();
    for i in 0..cs.len() {
        let subs: &[char] = match cs[i] {
            'K' | 'k' => &['\u{212A}'],
            'S' | 's' => &['\u{017F}'],
            'I' | 'i' => &['\u{0131}', '\u{0130}'],
            'é' => &['É', 'e'],
            'É' => &['é', 'E'],
            'e' | 'E' => &['é', 'É'],
            'A' | 'a' => &['\u{00C5}', '\u{212B}', 'à'],
            _ => &[],
        };
        for &s in subs {
            let mut v = cs.clone();
            v[i] = s;
            out.push(v.into_iter().collect());
        }
    }
    // high-bit twins: two adjacent ASCII bytes replaced by the 2-byte character whose bytes are the same with bit 7 set
    // (`p3` -> U+0433), and a 2-byte character replaced by its two bytes with bit 7 cleared (`é` -> `C)`): never a match
    let bs = w.as_bytes();
    for i in 0..bs.len().saturating_sub(1) {
        if bs[i] < 0x80 && bs[i + 1] < 0x80 && w.is_char_boundary(i) && w.is_char_boundary(i + 2) {
            let pair = [bs[i] | 0x80, bs[i + 1] | 0x80];
            if let Ok(t) = std::str::from_utf8(&pair) {
                out.push(format!("{}{}{}", &w[..i], t, &w[i + 2..]));
            }
        }
    }
    for (i, c) in w.char_indices() {
        if c.len_utf8() == 2 {
            let low: Vec<u8> = w.as_bytes()[i..i + 2].iter().map(|b| b & 0x7f).collect();
            if let Ok(t) = std::str::from_utf8(&low) {
                out.push(format!("{}{}{}", &w[..i], t, &w[i + 2..]));
            }
        }
    }
    // sharp s for "ss"/"SS"
    let lower = w.to_lowercase();
    if let Some(p) = lower.find("ss") {
        if w.is_char_boundary(p) && w.is_char_boundary(p + 2) {
            out.push(format!("{}ß{}", &w[..p], &w[p + 2..]));
            out.push(format!("{}ẞ{}", &w[..p], &w[p + 2..]));
        }
    }
    // full Unicode case mappings of the whole word (differs from ASCII folding on non-ASCII letters)
    let lo = w.to_lowercase();
    let up = w.to_uppercase();
    if lo != w.to_ascii_lowercase() {
        out.push(lo);
    }
    if up != w.to_ascii_uppercase() {
        out.push(up);
    }
    out
}

pub struct InputCfg {
    pub trie_len: usize,
    pub sigma_max: usize,
    pub flip_max: usize,
}

impl InputCfg {
    pub fn quick() -> Self {
        InputCfg { trie_len: 3, sigma_max: 10, flip_max: 10 }
    }
    pub fn thorough() -> Self {
        InputCfg { trie_len: 4, sigma_max: 12, flip_max: 12 }
    }
}

/// Inputs(prog) = Trie(L) ∪ ⋃_w (Flips ∪ Edit1 ∪ Pad ∪ Look)(w) ∪ extra ∪ {""}, deduplicated in
/// generation order. Returns (inputs, number of generator edges before deduplication).
pub fn inputs(spellings: &[String], extra: &[String], prefix: Option<&str>, cfg: &InputCfg) -> (Vec<String>, u64) {
    let sigma = alphabet(spellings, cfg.sigma_max);
    let mut seen: HashSet<String> = HashSet::new();
    let mut out = Vec::new();
    let mut edges = 0u64;
    let mut add = |s: String, out: &mut Vec<String>, edges: &mut u64| {
        *edges += 1;
        if seen.insert(s.clone()) {
            out.push(s);
        }
    };
    add(String::new(), &mut out, &mut edges);
    for w in spellings {
        add(w.clone(), &mut out, &mut edges);
    }
    for w in extra {
        add(w.clone(), &mut out, &mut edges);
    }
    for w in spellings {
        for s in flips(w, cfg.flip_max) {
            add(s, &mut out, &mut edges);
        }
        for s in look(w) {
            add(s, &mut out, &mut edges);
        }
        for s in pad(w, prefix) {
            add(s, &mut out, &mut edges);
        }
        for s in edit1(w, &sigma) {
            add(s, &mut out, &mut edges);
        }
    }
    for s in trie(&sigma, cfg.trie_len) {
        add(s, &mut out, &mut edges);
    }
    (out, edges)
}
