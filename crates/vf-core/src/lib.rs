//! vf-core: spec language, renderer, reference semantics, input generators, explorers and the
//! runtime of generated harness binaries. See /verif/DESIGN.md.

pub mod devs;
pub mod fmtgrid;
pub mod harness;
pub mod inputs;
pub mod props;
pub mod refsem;
pub mod spec;

pub use harness::{guard, my_err, my_err_any, my_err_boxed, my_err_t, Hijack, my_err_calls, my_err_g, my_err_generic, Ctx, MyErr, MyErrG, Nd, NotSend, Obs, Program, Tier};
pub const fn id<T>(t: T) -> T { t }
