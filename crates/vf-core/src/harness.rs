//! Runtime side of a generated shard binary: per-program context, recording, output.

use crate::spec::EnumSpec;
use serde::{Deserialize, Serialize};
use std::collections::hash_map::DefaultHasher;
use std::collections::HashSet;
use std::hash::{Hash, Hasher};

#[derive(Clone, Copy, Debug, PartialEq, Eq, Serialize, Deserialize)]
pub enum Tier {
    Quick,
    Thorough,
}

impl Tier {
    pub fn from_env() -> Tier {
        match std::env::var("VF_TIER").as_deref() {
            Ok("thorough") => Tier::Thorough,
            _ => Tier::Quick,
        }
    }
    pub fn name(&self) -> &'static str {
        match self {
            Tier::Quick => "quick",
            Tier::Thorough => "thorough",
        }
    }
}

/// One program of the program space.
#[derive(Clone, Debug, Serialize, Deserialize)]
pub struct Program {
    pub idx: usize,
    /// human readable list of deviations from the base program
    pub label: String,
    /// number of deviations
    pub k: usize,
    pub spec: EnumSpec,
    /// property specific extra data
    #[serde(default)]
    pub aux: serde_json::Value,
    /// rendered module body (enum + glue + `pub fn run(ctx)`)
    #[serde(default)]
    pub source: String,
}

#[derive(Clone, Debug, Serialize, Deserialize, PartialEq, Eq)]
pub struct Violation {
    /// stable class of the disagreement (used for known-finding matching)
    pub kind: String,
    /// the input / operation history / item that fails
    pub input: String,
    pub expected: String,
    pub observed: String,
}

#[derive(Clone, Debug, Default, Serialize, Deserialize)]
pub struct ProgReport {
    pub idx: usize,
    pub evaluations: u64,
    pub states: u64,
    pub transitions: u64,
    pub traces: u64,
    pub nontrivial: u64,
    pub outcomes: Vec<String>,
    pub violations_total: u64,
    pub violations: Vec<Violation>,
    pub samples: Vec<serde_json::Value>,
    /// machinery-level problems (vacuity guards); any entry makes the run exit 2
    pub machinery: Vec<String>,
    /// named counters (excluded classes, observations ...)
    pub counters: std::collections::BTreeMap<String, u64>,
}

pub struct Ctx {
    pub tier: Tier,
    pub program: Program,
    pub rep: ProgReport,
    nontrivial: HashSet<u64>,
    outcomes: HashSet<String>,
    viol_keys: HashSet<(String, String)>,
}

pub const MAX_VIOLATIONS_PER_PROGRAM: usize = 4;
pub const MAX_SAMPLES_PER_PROGRAM: usize = 2;

fn h<T: Hash>(t: &T) -> u64 {
    let mut s = DefaultHasher::new();
    t.hash(&mut s);
    s.finish()
}

impl Ctx {
    pub fn new(tier: Tier, program: Program) -> Ctx {
        let idx = program.idx;
        Ctx {
            tier,
            program,
            rep: ProgReport { idx, ..Default::default() },
            nontrivial: HashSet::new(),
            outcomes: HashSet::new(),
            viol_keys: HashSet::new(),
        }
    }
    pub fn spec(&self) -> &EnumSpec {
        &self.program.spec
    }
    pub fn thorough(&self) -> bool {
        self.tier == Tier::Thorough
    }
    /// one real call compared with one reference prediction
    pub fn eval(&mut self) {
        self.rep.evaluations += 1;
        self.rep.traces += 1;
    }
    pub fn state(&mut self) {
        self.rep.states += 1;
    }
    pub fn states(&mut self, n: u64) {
        self.rep.states += n;
    }
    pub fn transition(&mut self) {
        self.rep.transitions += 1;
    }
    pub fn transitions(&mut self, n: u64) {
        self.rep.transitions += n;
    }
    pub fn count(&mut self, name: &str, n: u64) {
        *self.rep.counters.entry(name.to_string()).or_insert(0) += n;
    }
    /// a distinct non-trivial case (deduplicated by key within the program)
    pub fn nontrivial<T: Hash>(&mut self, key: &T) {
        if self.nontrivial.insert(h(key)) {
            self.rep.nontrivial += 1;
        }
    }
    /// outcome class seen (vacuity guard: a run must see >= 2 classes overall)
    pub fn outcome(&mut self, class: &str) {
        if !self.outcomes.contains(class) {
            self.outcomes.insert(class.to_string());
            self.rep.outcomes.push(class.to_string());
        }
    }
    pub fn sample(&mut self, v: serde_json::Value) {
        if self.rep.samples.len() < MAX_SAMPLES_PER_PROGRAM {
            self.rep.samples.push(v);
        }
    }
    pub fn want_sample(&self) -> bool {
        self.rep.samples.len() < MAX_SAMPLES_PER_PROGRAM
    }
    pub fn violation(&mut self, kind: &str, input: &str, expected: &str, observed: &str) {
        self.rep.violations_total += 1;
        if self.rep.violations.len() < MAX_VIOLATIONS_PER_PROGRAM
            && self.viol_keys.insert((kind.to_string(), input.to_string()))
        {
            self.rep.violations.push(Violation {
                kind: kind.into(),
                input: input.into(),
                expected: expected.into(),
                observed: observed.into(),
            });
        }
    }
    /// compare one real observation with the reference prediction
    pub fn expect_eq(&mut self, kind: &str, input: &str, expected: &str, observed: &str) -> bool {
        self.eval();
        if expected != observed {
            self.violation(kind, input, expected, observed);
            false
        } else {
            true
        }
    }
    /// vacuity guard failed: the exploration did not reach what the property names
    pub fn machinery(&mut self, msg: String) {
        if self.rep.machinery.len() < 4 {
            self.rep.machinery.push(msg);
        }
    }
}

/// Run `f`, turning a panic into `Err(message)`.
pub fn guard<T>(f: impl FnOnce() -> T) -> Result<T, String> {
    match std::panic::catch_unwind(std::panic::AssertUnwindSafe(f)) {
        Ok(v) => Ok(v),
        Err(e) => {
            let m = if let Some(s) = e.downcast_ref::<&str>() {
                s.to_string()
            } else if let Some(s) = e.downcast_ref::<String>() {
                s.clone()
            } else {
                "<non-string panic>".to_string()
            };
            Err(m)
        }
    }
}

#[derive(Serialize, Deserialize)]
pub struct ShardOutput {
    pub programs: Vec<ProgReport>,
}

/// Entry point of every generated shard binary.
/// env: VF_SPECS = json file with Vec<Program> of this shard, VF_OUT = output json,
/// VF_TIER, VF_ONLY = comma separated program indices (replay validation)
pub fn shard_main(progs: &[(usize, fn(&mut Ctx))]) {
    std::panic::set_hook(Box::new(|_| {}));
    let tier = Tier::from_env();
    let specs_path = std::env::var("VF_SPECS").expect("VF_SPECS");
    let out_path = std::env::var("VF_OUT").expect("VF_OUT");
    let only: Option<HashSet<usize>> = std::env::var("VF_ONLY")
        .ok()
        .map(|s| s.split(',').filter_map(|x| x.trim().parse().ok()).collect());
    let text = std::fs::read_to_string(&specs_path).expect("read specs");
    let specs: Vec<Program> = serde_json::from_str(&text).expect("parse specs");
    let by_idx: std::collections::HashMap<usize, &Program> = specs.iter().map(|p| (p.idx, p)).collect();
    let mut out = ShardOutput { programs: vec![] };
    for (idx, run) in progs {
        if let Some(o) = &only {
            if !o.contains(idx) {
                continue;
            }
        }
        let p = match by_idx.get(idx) {
            Some(p) => (*p).clone(),
            None => {
                eprintln!("vf: program {} not in spec file", idx);
                std::process::exit(2);
            }
        };
        let mut ctx = Ctx::new(tier, p);
        if let Err(m) = guard(|| run(&mut ctx)) {
            ctx.machinery(format!("harness panicked outside a guarded call: {}", m));
        }
        out.programs.push(ctx.rep);
    }
    std::fs::write(&out_path, serde_json::to_string(&out).unwrap()).expect("write out");
}

// ---------------------------------------------------------------------------------------------
// support types referenced by generated programs
// ---------------------------------------------------------------------------------------------

/// a type without `Default`, only constructible through `default_with`
#[derive(Debug, Clone, PartialEq, Eq, Hash)]
pub struct Nd(pub u8);

/// a `Copy + Default` type that is neither `Send` nor `Sync` (instantiates type parameters in the C05 marker probe)
#[derive(Debug, Clone, Copy, Default, PartialEq, Eq)]
pub struct NotSend(pub std::marker::PhantomData<*const u8>);

/// custom parse error for `parse_err_ty` / `parse_err_fn`
#[derive(Debug, Clone, PartialEq, Eq)]
pub struct MyErr(pub String);

thread_local! {
    pub static MY_ERR_CALLS: std::cell::Cell<u64> = std::cell::Cell::new(0);
}

pub fn my_err(s: &str) -> MyErr {
    MY_ERR_CALLS.with(|c| c.set(c.get() + 1));
    MyErr(s.to_string())
}

/// error constructors that are generic over their ARGUMENT (`impl Into<String>` / `S: AsRef<str>`): a path to such a function
/// is not a `fn(&str) -> E` item
impl MyErr {
    pub fn new_any(name: impl Into<String>) -> MyErr {
        MY_ERR_CALLS.with(|c| c.set(c.get() + 1));
        MyErr(name.into())
    }
}
#[allow(non_camel_case_types)]
pub type my_err_t = MyErr;
/// returns a type that is not `parse_err_ty` itself but coerces to it (`Box<MyErr>` -> `Box<dyn Debug>`)
pub fn my_err_boxed(s: &str) -> Box<MyErr> {
    Box::new(my_err(s))
}
pub fn my_err_any<S: AsRef<str>>(s: S) -> MyErr {
    my_err(s.as_ref())
}

/// an error constructor whose RETURN type is a type parameter (inferred from `parse_err_ty`)
pub fn my_err_generic<E: From<MyErr>>(s: &str) -> E {
    E::from(my_err(s))
}

/// what the unrelated inherent methods of the `inherent-methods` declaration context return
#[derive(Debug, Clone, Copy, PartialEq, Eq)]
pub struct Hijack;

pub fn my_err_calls() -> u64 {
    MY_ERR_CALLS.with(|c| c.get())
}

/// Observation of a parse call
#[derive(Clone, Debug, PartialEq, Eq, Hash)]
pub enum Obs {
    Ok(usize, String),
    Err(String),
    Panic(String),
}

impl Obs {
    pub fn show(&self) -> String {
        match self {
            Obs::Ok(i, d) => format!("Ok(#{} {})", i, d),
            Obs::Err(e) => format!("Err({})", e),
            Obs::Panic(m) => format!("PANIC({})", m),
        }
    }
}

/// custom parse error whose type mentions the enum's own type parameter
pub struct MyErrG<T>(pub String, pub std::marker::PhantomData<T>);
impl<T> std::fmt::Debug for MyErrG<T> {
    fn fmt(&self, f: &mut std::fmt::Formatter<'_>) -> std::fmt::Result {
        write!(f, "MyErr({:?})", self.0)
    }
}
pub fn my_err_g<T>(s: &str) -> MyErrG<T> {
    MY_ERR_CALLS.with(|c| c.set(c.get() + 1));
    MyErrG(s.to_string(), std::marker::PhantomData)
}
