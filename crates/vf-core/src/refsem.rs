//! Reference semantics (the oracle). Boring table-driven Rust over the spec: no syn, no heck,
//! no token streams. Every function states the documented rule it encodes.

use crate::spec::*;

// ---------------------------------------------------------------------------------------------
// R-case: serialize_all styles
// ---------------------------------------------------------------------------------------------

#[derive(Clone, Copy, Debug, PartialEq, Eq, Hash)]
pub enum Style {
    Camel,
    Pascal,
    Kebab,
    Snake,
    ScreamingSnake,
    ScreamingKebab,
    Lower,
    Upper,
    Title,
    Mixed,
    Train,
}

pub const STYLE_STRINGS: [(&str, Style); 16] = [
    ("camelCase", Style::Camel),
    ("PascalCase", Style::Pascal),
    ("kebab-case", Style::Kebab),
    ("snake_case", Style::Snake),
    ("SCREAMING_SNAKE_CASE", Style::ScreamingSnake),
    ("SCREAMING-KEBAB-CASE", Style::ScreamingKebab),
    ("lowercase", Style::Lower),
    ("UPPERCASE", Style::Upper),
    ("title_case", Style::Title),
    ("mixed_case", Style::Mixed),
    ("Train-Case", Style::Train),
    // accepted legacy aliases
    ("camel_case", Style::Pascal),
    ("snek_case", Style::Snake),
    ("kebab_case", Style::Kebab),
    ("shouty_snake_case", Style::ScreamingSnake),
    ("shouty_snek_case", Style::ScreamingSnake),
];

pub fn style_strings() -> Vec<&'static str> {
    STYLE_STRINGS.iter().map(|x| x.0).collect()
}

pub fn style_of(s: &str) -> Option<Style> {
    STYLE_STRINGS.iter().find(|x| x.0 == s).map(|x| x.1)
}

#[derive(Clone, Copy, PartialEq)]
enum Cls {
    None,
    Lower,
    Upper,
}

/// Word split: split at every non-alphanumeric character (identifiers: `_`); inside a run, a word
/// ends after a position whose most recent cased character is lower-case when the next character
/// is upper-case (`fooBar`, `a1B`), and an acronym run gives up its last capital to a following
/// lower-case letter (`HTTPServer` -> `HTTP`, `Server`). Digits are caseless: they inherit and
/// never start a word by themselves.
pub fn split_words(ident: &str) -> Vec<String> {
    let mut words = Vec::new();
    for run in ident.split(|c: char| !c.is_alphanumeric()) {
        let cs: Vec<char> = run.chars().collect();
        if cs.is_empty() {
            continue;
        }
        // cut[i] == true  <=> a new word starts at position i
        let mut cut = vec![false; cs.len()];
        // cls[i]: class of the most recent cased char in the current word at or before i
        let mut cur = Cls::None;
        for i in 0..cs.len() {
            let c = cs[i];
            if cut[i] {
                cur = Cls::None;
            }
            let before = cur;
            if c.is_lowercase() {
                cur = Cls::Lower;
            } else if c.is_uppercase() {
                cur = Cls::Upper;
            }
            if i + 1 < cs.len() {
                let n = cs[i + 1];
                if cur == Cls::Lower && n.is_uppercase() {
                    cut[i + 1] = true;
                } else if before == Cls::Upper && c.is_uppercase() && n.is_lowercase() && !cut[i] {
                    // acronym boundary *before* c
                    cut[i] = true;
                    cur = Cls::Upper; // c starts the new word
                }
            }
        }
        let mut w = String::new();
        for i in 0..cs.len() {
            if cut[i] && !w.is_empty() {
                words.push(std::mem::take(&mut w));
            }
            w.push(cs[i]);
        }
        if !w.is_empty() {
            words.push(w);
        }
    }
    words
}

fn lower(w: &str) -> String {
    w.chars().flat_map(|c| c.to_lowercase()).collect()
}
fn upper(w: &str) -> String {
    w.chars().flat_map(|c| c.to_uppercase()).collect()
}
fn capitalise(w: &str) -> String {
    let mut it = w.chars();
    match it.next() {
        None => String::new(),
        Some(f) => {
            let mut o: String = f.to_uppercase().collect();
            o.push_str(&lower(it.as_str()));
            o
        }
    }
}

/// R-case(ident, style)
pub fn recase(ident: &str, style: Style) -> String {
    let words = split_words(ident);
    let join = |f: &dyn Fn(&str) -> String, sep: &str| -> String {
        words.iter().map(|w| f(w)).collect::<Vec<_>>().join(sep)
    };
    match style {
        Style::Lower => lower(ident),
        Style::Upper => upper(ident),
        Style::Snake => join(&lower, "_"),
        Style::Kebab => join(&lower, "-"),
        Style::ScreamingSnake => join(&upper, "_"),
        Style::ScreamingKebab => join(&upper, "-"),
        Style::Title => join(&capitalise, " "),
        Style::Train => join(&capitalise, "-"),
        Style::Pascal => join(&capitalise, ""),
        Style::Mixed | Style::Camel => {
            let mut o = String::new();
            for (i, w) in words.iter().enumerate() {
                if i == 0 {
                    o.push_str(&lower(w));
                } else {
                    o.push_str(&capitalise(w));
                }
            }
            o
        }
    }
}

pub fn recase_opt(ident: &str, style_str: &Option<String>) -> String {
    match style_str {
        None => ident.to_string(),
        Some(s) => match style_of(s) {
            Some(st) => recase(ident, st),
            None => ident.to_string(),
        },
    }
}

/// R-snake: method-name form. snake_case, and additionally every digit run that follows a
/// non-digit is split off with `_` (`Hello2You` -> `hello_2_you`).
pub fn snakify(ident: &str) -> String {
    let base = recase(unraw(ident), Style::Snake);
    let cs: Vec<char> = base.chars().collect();
    let mut o = String::new();
    for (i, c) in cs.iter().enumerate() {
        if c.is_ascii_digit() && i != 0 && !cs[i - 1].is_ascii_digit() {
            o.push('_');
        }
        o.push(*c);
    }
    o
}

// ---------------------------------------------------------------------------------------------
// names and spellings
// ---------------------------------------------------------------------------------------------

/// R-spellings(v): `serialize* ++ to_string`, else the re-cased identifier.
pub fn spellings(e: &EnumSpec, v: &VariantSpec) -> Vec<String> {
    let mut s = v.serialize_src_order();
    if let Some(t) = &v.to_string {
        s.push(t.clone());
    }
    if s.is_empty() {
        s.push(recase_opt(unraw(&v.ident), &e.serialize_all));
    }
    s
}

/// R-name(v) without prefix: to_string, else the longest serialize (None if there is a tie in
/// byte length between distinct literals: the statement only says "longest"), else re-cased ident.
pub fn name_noprefix(e: &EnumSpec, v: &VariantSpec) -> Option<String> {
    if let Some(t) = &v.to_string {
        return Some(t.clone());
    }
    if !v.serialize.is_empty() {
        let m = v.serialize.iter().map(|s| s.len()).max().unwrap();
        let longest: Vec<&String> = v.serialize.iter().filter(|s| s.len() == m).collect();
        if longest.iter().any(|s| *s != longest[0]) {
            return None;
        }
        return Some(longest[0].clone());
    }
    Some(recase_opt(unraw(&v.ident), &e.serialize_all))
}

pub fn name(e: &EnumSpec, v: &VariantSpec) -> Option<String> {
    name_noprefix(e, v).map(|n| match &e.prefix {
        Some(p) => format!("{}{}", p, n),
        None => n,
    })
}

/// R-ci(v): variant flag if present else enum flag.
pub fn is_ci(e: &EnumSpec, v: &VariantSpec) -> bool {
    match v.aci {
        Some(Aci::Bare) | Some(Aci::True) => true,
        Some(Aci::False) => false,
        None => e.aci,
    }
}

fn fold_ascii(c: char) -> char {
    if ('A'..='Z').contains(&c) {
        ((c as u8) + 32) as char
    } else {
        c
    }
}

/// equal after folding only A-Z
pub fn eq_fold_ascii(a: &str, b: &str) -> bool {
    let mut x = a.chars();
    let mut y = b.chars();
    loop {
        match (x.next(), y.next()) {
            (None, None) => return true,
            (Some(p), Some(q)) => {
                if fold_ascii(p) != fold_ascii(q) {
                    return false;
                }
            }
            _ => return false,
        }
    }
}

/// R-match(v, s)
pub fn matches(e: &EnumSpec, v: &VariantSpec, s: &str) -> bool {
    let ci = is_ci(e, v);
    spellings(e, v).iter().any(|w| if ci { eq_fold_ascii(w, s) } else { w == s })
}

/// Can some string be matched by both variants? (domain predicate "spellings do not overlap")
pub fn overlap(e: &EnumSpec, a: &VariantSpec, b: &VariantSpec) -> bool {
    let (ca, cb) = (is_ci(e, a), is_ci(e, b));
    for x in spellings(e, a) {
        for y in spellings(e, b) {
            let hit = if ca || cb { eq_fold_ascii(&x, &y) } else { x == y };
            if hit {
                return true;
            }
        }
    }
    false
}

pub fn parse_candidates<'a>(e: &'a EnumSpec) -> impl Iterator<Item = (usize, &'a VariantSpec)> {
    e.variants.iter().enumerate().filter(|(_, v)| !v.disabled && !v.default)
}

pub fn any_overlap(e: &EnumSpec) -> bool {
    let c: Vec<_> = parse_candidates(e).collect();
    for i in 0..c.len() {
        for j in i + 1..c.len() {
            if overlap(e, c[i].1, c[j].1) {
                return true;
            }
        }
    }
    false
}

#[derive(Clone, Debug, PartialEq, Eq, Hash)]
pub enum Parsed {
    /// variant index, Debug text of the value
    Ok(usize, String),
    Err,
}

/// Debug text of variant v built by the parser (Default / default_with payloads)
pub fn parsed_debug(v: &VariantSpec) -> String {
    let fields: Vec<String> = match &v.kind {
        Kind::Unit => vec![],
        Kind::Tuple(fs) => fs
            .iter()
            .enumerate()
            .map(|(i, f)| if v.default_with && i == 0 { f.dw_value().1 } else { f.default_dbg() })
            .collect(),
        Kind::Named(fs) => {
            fs.iter().map(|f| if f.default_with { f.ty.dw_value().1 } else { f.ty.default_dbg() }).collect()
        }
    };
    debug_text(v, &fields)
}

/// Debug text of variant v with all fields `Default::default()`
pub fn default_debug(v: &VariantSpec) -> String {
    let fields: Vec<String> = match &v.kind {
        Kind::Unit => vec![],
        Kind::Tuple(fs) => fs.iter().map(|f| f.default_dbg()).collect(),
        Kind::Named(fs) => fs.iter().map(|f| f.ty.default_dbg()).collect(),
    };
    debug_text(v, &fields)
}

/// R-parse(s): first enabled non-default variant in declaration order with a matching spelling;
/// else the default variant holding s; else Err.
pub fn parse(e: &EnumSpec, s: &str) -> Parsed {
    for (i, v) in parse_candidates(e) {
        if matches(e, v, s) {
            return Parsed::Ok(i, parsed_debug(v));
        }
    }
    for (i, v) in e.variants.iter().enumerate() {
        if v.default && !v.disabled {
            return Parsed::Ok(i, debug_text(v, &[format!("{:?}", s)]));
        }
    }
    Parsed::Err
}

/// R-enabled
pub fn enabled(e: &EnumSpec) -> Vec<usize> {
    e.variants.iter().enumerate().filter(|(_, v)| !v.disabled).map(|(i, _)| i).collect()
}

// ---------------------------------------------------------------------------------------------
// EnumMessage
// ---------------------------------------------------------------------------------------------

pub fn msg(v: &VariantSpec) -> Option<String> {
    if v.disabled {
        None
    } else {
        v.message.clone()
    }
}
pub fn detail(v: &VariantSpec) -> Option<String> {
    if v.disabled {
        None
    } else {
        v.detailed_message.clone().or_else(|| v.message.clone())
    }
}
/// doc comment with one leading space removed per line; a single line as is, several lines each
/// terminated by a newline
pub fn doc(v: &VariantSpec) -> Option<String> {
    let text: Vec<&(String, DocForm)> = v.docs.iter().filter(|(_, f)| *f != DocForm::Marker).collect();
    if v.disabled || text.is_empty() {
        return None;
    }
    let lines: Vec<String> = text
        .iter()
        .map(|(d, _)| d.strip_prefix(' ').map(|x| x.to_string()).unwrap_or_else(|| d.clone()))
        .collect();
    if lines.len() == 1 {
        Some(lines[0].clone())
    } else {
        Some(lines.iter().map(|l| format!("{}\n", l)).collect())
    }
}

// ---------------------------------------------------------------------------------------------
// EnumProperty
// ---------------------------------------------------------------------------------------------

pub fn prop_str(v: &VariantSpec, k: &str) -> Option<String> {
    if v.disabled {
        return None;
    }
    v.props_src_order().into_iter().find_map(|(key, l)| match l {
        PropLit::S(s) if unraw(&key) == k => Some(s),
        _ => None,
    })
}
pub fn prop_int(v: &VariantSpec, k: &str) -> Option<i64> {
    if v.disabled {
        return None;
    }
    v.props_src_order().into_iter().find_map(|(key, l)| match l {
        PropLit::I(s) if unraw(&key) == k => Some(s),
        _ => None,
    })
}
pub fn prop_bool(v: &VariantSpec, k: &str) -> Option<bool> {
    if v.disabled {
        return None;
    }
    v.props_src_order().into_iter().find_map(|(key, l)| match l {
        PropLit::B(s) if unraw(&key) == k => Some(s),
        _ => None,
    })
}

#[cfg(test)]
mod tests {
    use super::*;
    #[test]
    fn words() {
        assert_eq!(split_words("HTTPServer"), vec!["HTTP", "Server"]);
        assert_eq!(split_words("Hello2You"), vec!["Hello2", "You"]);
        assert_eq!(split_words("BbCc"), vec!["Bb", "Cc"]);
        assert_eq!(split_words("DEf"), vec!["D", "Ef"]);
        assert_eq!(split_words("G2h"), vec!["G2h"]);
        assert_eq!(split_words("I_j"), vec!["I", "j"]);
        assert_eq!(split_words("aBCd"), vec!["a", "B", "Cd"]);
        assert_eq!(split_words("A1Bc"), vec!["A1", "Bc"]);
        assert_eq!(split_words("ABC"), vec!["ABC"]);
        assert_eq!(snakify("Hello2You"), "hello_2_you");
        assert_eq!(recase("XMLHttpRequest", Style::Train), "Xml-Http-Request");
    }
}

/// canonical form of a spelling *set* (the statements speak of "the set of spellings")
pub fn as_set(v: &[String]) -> Vec<String> {
    let mut x = v.to_vec();
    x.sort();
    x.dedup();
    x
}
