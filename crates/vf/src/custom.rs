//! Property specific drivers (C07, C19, C20).

use serde_json::Value;
use vf_core::harness::Tier;
use vf_core::props::PropDef;

pub fn check(def: &PropDef, _tier: Tier) -> i32 {
    eprintln!("no custom driver for {}", def.id);
    2
}

pub fn replay(def: &PropDef, _v: &Value) -> i32 {
    eprintln!("no custom replay for {}", def.id);
    2
}
