//! vf — driver. `vf check <ID> --tier quick|thorough`, `vf replay <file>`, `vf list`.
//! See /verif/DESIGN.md §2.

mod custom;
mod pipeline;

use std::process::exit;

fn usage() -> ! {
    eprintln!("usage: vf check <ID> [--tier quick|thorough] | vf replay <file> | vf list | vf dump <ID> [--tier t] [idx]");
    exit(2)
}

fn main() {
    let args: Vec<String> = std::env::args().skip(1).collect();
    if args.is_empty() {
        usage();
    }
    let mut tier = std::env::var("VERIF_TIER").ok().filter(|t| t == "quick" || t == "thorough");
    let mut rest = Vec::new();
    let mut i = 1;
    while i < args.len() {
        if args[i] == "--tier" && i + 1 < args.len() {
            tier = Some(args[i + 1].clone());
            i += 2;
        } else {
            rest.push(args[i].clone());
            i += 1;
        }
    }
    let tier = match tier.as_deref() {
        Some("thorough") => vf_core::Tier::Thorough,
        _ => vf_core::Tier::Quick,
    };
    match args[0].as_str() {
        "list" => {
            for p in vf_core::props::all() {
                println!("{}", p.id);
            }
        }
        "setup" => exit(pipeline::setup()),
        "check" => {
            if rest.is_empty() {
                usage();
            }
            let code = pipeline::check(&rest[0], tier);
            exit(code);
        }
        "replay" => {
            if rest.is_empty() {
                usage();
            }
            exit(pipeline::replay(&rest[0]));
        }
        "dump" => {
            if rest.is_empty() {
                usage();
            }
            let def = vf_core::props::get(&rest[0]).unwrap_or_else(|| usage());
            let ps = (def.programs)(tier);
            if let Some(ix) = rest.get(1).and_then(|s| s.parse::<usize>().ok()) {
                let p = &ps.programs[ix];
                println!("// {} k={}\n{}", p.label, p.k, p.source);
            } else {
                println!("{} programs; excluded {:?}; bounds {}", ps.programs.len(), ps.excluded, ps.bounds);
                for p in ps.programs.iter().take(40) {
                    println!("{:5} k={} {}", p.idx, p.k, p.label);
                }
            }
        }
        _ => usage(),
    }
}
