#!/bin/sh
# usage: tools/try_patch_all.sh <patch.diff> [tier] — apply a change to /repo, run EVERY check, revert; prints one line per check.
# Used for behaviour-preserving refactorings (every check must stay at exit 0) and for cross-property seed matrices.
P=$1; TIER=${2:-quick}
cd /verif || exit 2
if ! git -C /repo diff --quiet; then echo "/repo has uncommitted changes; refusing"; exit 2; fi
git -C /repo apply "$P" || { echo "patch does not apply"; exit 2; }
BAD=0
for id in $(./vf list); do
  ./vf check "$id" --tier "$TIER" > /tmp/tpa.$$.log 2>&1; rc=$?
  line=$(grep -E "^C[0-9]+ $TIER" /tmp/tpa.$$.log | cut -c1-110)
  first=$(grep -A3 "^VIOLATION" /tmp/tpa.$$.log | grep -E "kind=" | head -1 | sed 's/^ *//' | cut -c1-140)
  mach=$(grep -E "^MACHINERY" /tmp/tpa.$$.log | head -1 | cut -c1-200)
  echo "$id exit=$rc $first $mach"
  [ $rc -ne 0 ] && BAD=1
done
git -C /repo checkout -- .
git -C /repo clean -fdq -- strum strum_macros 2>/dev/null
rm -f /tmp/tpa.$$.log
exit $BAD
