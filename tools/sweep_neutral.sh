#!/bin/sh
# usage: tools/sweep_neutral.sh <out.log> [k n] — every behaviour-preserving refactoring under neutral/ against all 20 quick checks
# in an isolated copy ($ISO); every line must end in exit=0. With "k n" only every n-th diff starting at k (parallel streams).
OUT=$1; K=${2:-0}; N=${3:-1}; ISO=${ISO:-/tmp/iso3}; export ISO
: > "$OUT"
i=0
for f in /verif/neutral/R?-?.diff /verif/neutral/R1?-?.diff; do
  [ -f "$f" ] || continue
  i=$((i+1)); [ $((i % N)) -eq "$K" ] || continue
  echo "### $(basename $f)" >> "$OUT"
  /verif/tools/try_patch_all_iso.sh "$f" quick >> "$OUT" 2>&1
done
echo DONE >> "$OUT"
