#!/bin/sh
# usage: tools/try_seed_iso.sh <patch.diff> <ID> [tier]
# Like try_seed.sh, but in an isolated copy: /verif is rsynced to $ISO/v and /repo (HEAD + working tree) to $ISO/r,
# so /repo stays untouched (safe while another check or a `vp run` job reads /repo). ISO defaults to /tmp/iso.
P=$1; ID=$2; TIER=${3:-quick}
ISO=${ISO:-/tmp/iso}
mkdir -p "$ISO/v" "$ISO/r"
# long sweeps list their ISO directory in /tmp/iso_use_committed: they take the COMMITTED /verif (git HEAD), so that
# edits in progress in the working tree cannot leak into them
if [ -f /tmp/iso_use_committed ] && grep -qx "$ISO" /tmp/iso_use_committed; then
  rm -rf "$ISO/vsrc"; mkdir -p "$ISO/vsrc"; git -C /verif archive HEAD | tar -x -C "$ISO/vsrc"
  rsync -a --delete --exclude target --exclude work --exclude replays "$ISO/vsrc/" "$ISO/v/"
else
  rsync -a --delete --exclude target --exclude work --exclude replays --exclude .git /verif/ "$ISO/v/"
fi
rsync -a --delete --exclude target /repo/ "$ISO/r/"
git -C "$ISO/r" checkout -q -- . 2>/dev/null
git -C "$ISO/r" apply "$P" || { echo "patch does not apply"; exit 2; }
cd "$ISO/v" || exit 2
VERIF_REPO="$ISO/r" ./vf check "$ID" --tier "$TIER" > "$ISO/try.$$.log" 2>&1; RC=$?
git -C "$ISO/r" checkout -q -- .
grep -E "^VIOLATION|^KNOWN|^MACHINERY|^C[0-9][0-9] " "$ISO/try.$$.log" | head -${LINES_MAX:-6}
grep -A4 "^VIOLATION" "$ISO/try.$$.log" | head -${DETAIL:-12}
rm -f "$ISO/try.$$.log"
echo "exit=$RC"
exit $RC
