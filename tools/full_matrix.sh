#!/bin/sh
# usage: tools/full_matrix.sh <verif-home> <repo-copy> <out.csv>
# Runs EVERY seeded change against EVERY quick check in an isolated copy (so /repo and /verif stay usable).
VH=$1; RP=$2; OUT=$3
cd "$VH" || exit 2
export VERIF_REPO="$RP"
echo "seed,check,exit,first" > "$OUT"
for d in seeded/*/; do
  id=$(basename "$d")
  git -C "$RP" checkout -q -- . ; git -C "$RP" clean -fdq -- strum strum_macros
  if ! git -C "$RP" apply "$VH/$d/patch.diff" 2>/dev/null; then echo "$id,-,-,PATCH-DOES-NOT-APPLY" >> "$OUT"; continue; fi
  for c in $(./vf list); do
    ./vf check "$c" --tier quick > /tmp/fm.$$.log 2>&1; rc=$?
    first=$(grep -A3 "^VIOLATION" /tmp/fm.$$.log | grep -E "kind=" | head -1 | sed 's/^ *//; s/,/;/g' | cut -c1-100)
    echo "$id,$c,$rc,$first" >> "$OUT"
  done
done
git -C "$RP" checkout -q -- . ; git -C "$RP" clean -fdq -- strum strum_macros
rm -f /tmp/fm.$$.log
echo DONE >> "$OUT"
