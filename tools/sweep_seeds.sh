#!/bin/sh
# usage: tools/sweep_seeds.sh <out.csv> [stream k of n, e.g. "0 2"] — every seed under seeded/ against the quick check(s) recorded in
# its meta.json (detected_by; seeds without an entry are run against the check of their own property), in an isolated copy ($ISO).
# With "k n" only every n-th seed starting at k is run, so that several streams (each with its own ISO) can share the work.
OUT=$1; K=${2:-0}; N=${3:-1}; ISO=${ISO:-/tmp/iso4}; export ISO
cd /verif || exit 2
echo "seed,check,exit" > "$OUT"
i=0
for d in seeded/*/; do
  s=$(basename "$d"); [ -f "$d/patch.diff" ] || continue
  i=$((i+1)); [ $((i % N)) -eq "$K" ] || continue
  checks=$(python3 - "$d/meta.json" "$s" <<'PY'
import json,sys
m=json.load(open(sys.argv[1])); s=sys.argv[2]
c=[x['check'] for x in m.get('detected_by',[])][:2]
if not c: c=[s.split('-')[0]] if s[0]=='C' else []
print(' '.join(dict.fromkeys(c)))
PY
)
  for c in $checks; do
    tools/try_seed_iso.sh "/verif/$d/patch.diff" "$c" > "$ISO.sweep.log" 2>&1; rc=$?
    echo "$s,$c,$rc" >> "$OUT"
  done
done
echo DONE >> "$OUT"
