#!/usr/bin/env python3
"""usage: tools/gen_seed_prompts.py <template-round> <new-round> [extra exhausted themes]
Builds /tmp/seed/prompt<new>-<ID>.txt for every property from /tmp/seed/prompt<template>-<ID>.txt: the list of
earlier attempts is regenerated from seeded/<ID>-*/notes.md (first 180 characters each), the two seed letters are the
next unused ones, the scratch worktree is /tmp/seed/wt<new>-<ID>. The prompt gives a sub-agent the property text and
one-line summaries only - nothing else from /verif."""
import os, re, sys, string
tr, nr = sys.argv[1], sys.argv[2]
extra = sys.argv[3] if len(sys.argv) > 3 else ""
seeded = '/verif/seeded'
for n in range(1, 21):
    pid = f"C{n:02d}"
    tp = f"/tmp/seed/prompt{tr}-{pid}.txt"
    if not os.path.exists(tp):
        print("no template", tp); continue
    t = open(tp).read()
    m = re.search(r"/tmp/seed/%s-(\w) and /tmp/seed/%s-(\w)" % (pid, pid), t)
    a, b = m.group(1), m.group(2)
    used = sorted(d.split('-')[1] for d in os.listdir(seeded) if d.startswith(pid + '-') and len(d.split('-')[1]) == 1)
    free = [c for c in string.ascii_lowercase if c not in used]
    if len(free) < 2:
        print(pid, 'has no two free single-letter suffixes left; skipped'); continue
    na, nb = free[0], free[1]
    lines = []
    for d in sorted(os.listdir(seeded)):
        if not d.startswith(pid + '-'):
            continue
        f = os.path.join(seeded, d, 'notes.md')
        txt = ' '.join(open(f).read().split())[:180] if os.path.exists(f) else d
        lines.append("  - " + txt)
    head, rest = t.split("(summaries of earlier attempts):\n", 1)
    _, tail = rest.split("Also avoid the general themes", 1)
    t2 = head + "(summaries of earlier attempts):\n" + "\n".join(lines) + "\nAlso avoid the general themes" + tail
    if extra:
        t2 = t2.replace("i64 extremes.", "i64 extremes, " + extra + ".", 1)
    t2 = t2.replace(f"wt{tr}-{pid}", f"wt{nr}-{pid}")
    for old, new in ((a, na), (b, nb)):
        t2 = t2.replace(f"/tmp/seed/{pid}-{old}", f"/tmp/seed/{pid}-{new}")
    t2 = t2.replace(f"({a} and {b})", f"({na} and {nb})").replace("{%s, %s}" % (a, b), "{%s, %s}" % (na, nb))
    open(f"/tmp/seed/prompt{nr}-{pid}.txt", 'w').write(t2)
    print(pid, na, nb, len(lines), "earlier attempts")
