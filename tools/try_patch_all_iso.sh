#!/bin/sh
# usage: tools/try_patch_all_iso.sh <patch.diff> [tier] — like try_patch_all.sh but in an isolated copy ($ISO, default /tmp/iso2),
# so /repo is not touched. Prints one line per check; exit 1 if any check did not exit 0.
P=$1; TIER=${2:-quick}
ISO=${ISO:-/tmp/iso2}
mkdir -p "$ISO/v" "$ISO/r"
# long sweeps list their ISO directory in /tmp/iso_use_committed: they take the COMMITTED /verif (git HEAD), so that
# edits in progress in the working tree cannot leak into them
if [ -f /tmp/iso_use_committed ] && grep -qx "$ISO" /tmp/iso_use_committed; then
  rm -rf "$ISO/vsrc"; mkdir -p "$ISO/vsrc"; git -C /verif archive HEAD | tar -x -C "$ISO/vsrc"
  rsync -a --delete --exclude target --exclude work --exclude replays "$ISO/vsrc/" "$ISO/v/"
else
  rsync -a --delete --exclude target --exclude work --exclude replays --exclude .git /verif/ "$ISO/v/"
fi
rsync -a --delete --exclude target /repo/ "$ISO/r/"
git -C "$ISO/r" checkout -q -- . 2>/dev/null
git -C "$ISO/r" apply "$P" || { echo "patch does not apply"; exit 2; }
cd "$ISO/v" || exit 2
BAD=0
for id in $(./vf list); do
  VERIF_REPO="$ISO/r" ./vf check "$id" --tier "$TIER" > "$ISO/tpa.log" 2>&1; rc=$?
  first=$(grep -A3 "^VIOLATION" "$ISO/tpa.log" | grep -E "kind=" | head -1 | sed 's/^ *//' | cut -c1-140)
  mach=$(grep -E "^MACHINERY" "$ISO/tpa.log" | head -1 | cut -c1-200)
  echo "$id exit=$rc $first $mach"
  [ $rc -ne 0 ] && BAD=1
done
git -C "$ISO/r" checkout -q -- .
git -C "$ISO/r" clean -fdq -- strum strum_macros 2>/dev/null
exit $BAD
