#!/bin/sh
# usage: tools/confirm_seed.sh <seed-src-dir> <scratch-worktree> <seed-id> <property>
# Confirms in the scratch worktree: (1) suite passes with the change, (2) demo fails with it,
# (3) demo passes without it. On success copies the seed to /verif/seeded/<seed-id>/ with meta.json.
S=$1; WT=$2; ID=$3; PROP=$4
cd "$WT" || exit 2
git checkout -q -- . && git clean -fdq -e target
git apply "$S/patch.diff" || { echo "$ID: patch does not apply"; exit 2; }
SUITE=$(cargo test --workspace --no-fail-fast --offline 2>&1 | grep -E "^test result" | awk '{p+=$4; f+=$6} END {print p" passed "f" failed"}')
MODE=${DEMO_MODE:-test}
rundemo() {
  case "$MODE" in
    test) cargo test -p strum_tests --test zz_demo --offline 2>&1 | grep -E "^test result|error(\\[|:)" | head -3 | tr '\n' ' ' ;;
    phf) cargo test -p strum_tests --features test_phf --test zz_demo --offline 2>&1 | grep -E "^test result|error(\\[|:)" | head -3 | tr '\n' ' ' ;;
    crate) (cd "$S/demo" && sed -i "s#/tmp/seed/wt[0-9]*-[A-Za-z0-9]*#$WT#g" Cargo.toml && if cargo check --offline >/tmp/demo.$$.log 2>&1; then echo "test result: ok. demo crate compiles"; else echo "FAILED: $(grep -E '^error' /tmp/demo.$$.log | head -2 | tr '\n' ' ')"; fi; rm -rf target /tmp/demo.$$.log) ;;
    script) (cd "$S/demo" && sed -i "s#/tmp/seed/wt[0-9]*-[A-Za-z0-9]*#$WT#g" Cargo.toml && [ -f ./demo.sh ] || cp ../demo.sh ./demo.sh; sed -i 's#cd "$here/$crate"#cd "$here"#' ./demo.sh; true) && (cd "$S/demo"  && if sh ./demo.sh >/tmp/demo.$$.log 2>&1; then echo "test result: ok. demo.sh exit 0"; else echo "FAILED: demo.sh exit non-zero: $(tail -2 /tmp/demo.$$.log | tr '\n' ' ')"; fi; rm -rf target /tmp/demo.$$.log) ;;
  esac
}
[ -f "$S/demo.rs" ] && cp "$S/demo.rs" strum_tests/tests/zz_demo.rs
WITH=$(rundemo)
git checkout -q -- . 
WITHOUT=$(rundemo)
rm -f strum_tests/tests/zz_demo.rs
git checkout -q -- . && git clean -fdq -e target
echo "$ID: suite-with-change: $SUITE | demo-with: $WITH | demo-without: $WITHOUT"
case "$SUITE" in *" 0 failed") ;; *) echo "$ID: REJECT suite fails"; exit 1;; esac
case "$WITH" in *"FAILED"*|*error*) ;; *) echo "$ID: REJECT demo does not fail with change"; exit 1;; esac
case "$WITHOUT" in *"test result: ok"*) ;; *) echo "$ID: REJECT demo does not pass without change"; exit 1;; esac
D=/verif/seeded/$ID; mkdir -p "$D"
cp "$S/patch.diff" "$D/patch.diff"; [ -f "$S/demo.rs" ] && cp "$S/demo.rs" "$D/demo.rs"; [ -d "$S/demo" ] && cp -r "$S/demo" "$D/demo" && rm -rf "$D/demo/target"; [ -f "$S/notes.md" ] && cp "$S/notes.md" "$D/notes.md"
python3 - "$D" "$ID" "$PROP" "$SUITE" "$WITH" "$WITHOUT" <<'PY'
import json,sys,os
d,i,p,suite,w,wo=sys.argv[1:7]
notes=open(os.path.join(d,'notes.md')).read() if os.path.exists(os.path.join(d,'notes.md')) else ''
json.dump({"seed":i,"property":p,"base_commit":"b57d706 (pinned tree; applies to /repo HEAD unless noted)",
 "needs_to_manifest":"see notes.md","confirmed":{"suite_with_change":suite,"demo_with_change":w.strip(),"demo_without_change":wo.strip(),
 "how":"tools/confirm_seed.sh in a scratch git worktree of /repo under /tmp (cargo test --workspace --no-fail-fast --offline; demo copied to strum_tests/tests/zz_demo.rs)"},
 "detected_by":[]}, open(os.path.join(d,'meta.json'),'w'), indent=1)
PY
echo "$ID: CONFIRMED"
