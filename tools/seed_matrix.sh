#!/bin/sh
# usage: tools/seed_matrix.sh [tier]  — run every seeded change against the check of its own property (and record the result)
TIER=${1:-quick}
cd /verif || exit 2
for d in seeded/*/; do
  id=$(basename "$d"); prop=$(echo "$id" | cut -d- -f1)
  if ! git -C /repo diff --quiet; then echo "/repo dirty"; exit 2; fi
  if ! git -C /repo apply --check "/verif/$d/patch.diff" 2>/dev/null; then echo "$id: PATCH-DOES-NOT-APPLY"; continue; fi
  git -C /repo apply "/verif/$d/patch.diff"
  ./vf check "$prop" --tier "$TIER" > /tmp/matrix.$$.log 2>&1; rc=$?
  git -C /repo checkout -- .
  first=$(grep -A3 "^VIOLATION" /tmp/matrix.$$.log | grep "kind=" | head -1 | sed 's/^ *//' | cut -c1-150)
  echo "$id: check $prop exit=$rc $first"
done
rm -f /tmp/matrix.$$.log
