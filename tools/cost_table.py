#!/usr/bin/env python3
"""usage: tools/cost_table.py <quick.log> <thorough.log>  — prints the markdown table of DESIGN.md §9 from two logs that
contain the summary lines printed by ./vf check (`Cxx quick: programs=... wall=...s`)."""
import re, sys
def parse(path, tier):
    out = {}
    for line in open(path, errors='replace'):
        m = re.match(r'^(C\d\d) %s: (.*)$' % tier, line.strip())
        if not m: continue
        d = dict(re.findall(r'(\w+)=([\d.]+)', m.group(2)))
        extra = re.search(r'(corpus=\S+ x \d+ configurations|items=\d+)', m.group(2))
        out[m.group(1)] = (extra.group(1) if extra else d.get('programs', '?'), d.get('wall', '?'), d.get('states'), d.get('transitions'))
    return out
q, t = parse(sys.argv[1], 'quick'), parse(sys.argv[2], 'thorough')
print('| | quick programs | quick states / transitions | quick wall | thorough programs | thorough states / transitions | thorough wall |')
print('|---|---|---|---|---|---|---|')
for i in range(1, 21):
    c = 'C%02d' % i
    a = q.get(c, ('', '', None, None)); b = t.get(c, ('', '', None, None))
    f = lambda x: '' if not x[2] else '%s / %s' % (x[2], x[3])
    print('| %s | %s | %s | %s s | %s | %s | %s s |' % (c, a[0], f(a), a[1], b[0], f(b), b[1]))
def tot(d): 
    try: return sum(float(v[1]) for v in d.values())
    except: return 0
print('\nquick total %.0f s, thorough total %.0f s' % (tot(q), tot(t)))
