#!/usr/bin/env python3
"""Regenerate /verif/MANIFEST.json from the table below (kept in one place so it stays valid)."""
import json, os, sys
HERE = os.path.dirname(os.path.dirname(os.path.abspath(__file__)))

# id -> (technique, level text, level note, design ref)
CHECKS = {
 "C04": ("bounded-exhaustive program-space enumeration (all disabled-subsets x deviations<=k) executed on rustc-compiled derive output, compared with a reference list",
         "Every enum definition of the stated bounded program space is compiled with the real derive and its forward/reverse traversal, count() and COUNT are compared with the reference list of enabled variants; the claim holds for that whole space, not a sample.",
         "trusted: rustc, derived Debug, generated vidx() match, the R-enabled reference in vf-core; type parameters instantiated with u8", "DESIGN.md §4 C04"),
 "C05": ("explicit-state BFS to fixpoint (stateright) over (real iterator bytes, reference cursor) states with the real object rebuilt by history replay; dev and release profiles",
         "All reachable states of the real derived iterator under the stated action alphabet (next, next_back, nth/nth_back with small, huge and near-usize::MAX n, clone with two live iterators) are visited for every enum of the program space, each transition compared with core::ops::Range as reference, in both overflow-checking and wrapping builds; verdict holds for histories of any length over the alphabet.",
         "trusted: rustc, core::ops::Range, stateright BFS, raw-byte state key (two usize, no padding; guarded by size_of) ; n is drawn from representatives of usize", "DESIGN.md §4 C05"),
 "C06": ("bounded-exhaustive program-space enumeration x complete 8/16-bit input domain sweep (boundary set for wider reprs) on rustc-compiled derive output against rustc's discriminant rule",
         "For every enum of the bounded program space (all disabled subsets x <=k deviations of repr/discriminant/kind) from_repr is called with EVERY value of an 8/16-bit repr type (boundary values for wider types) and compared with the reference discriminant table, which is itself cross-checked against `v as R` / the enum tag for each program.",
         "trusted: rustc casts and repr(int) tag layout, derived Debug, vf-core R-disc; wider-than-16-bit reprs probed at boundaries only", "DESIGN.md §4 C06"),
 "C01": ("bounded-exhaustive program-space (<=k deviations) x input-space (trie + case-flip/edit-1/padding/look-alike closures) enumeration on rustc-compiled derive output vs reference parser",
         "Every enum definition within k deviations of the base (all pairs of EnumString features, non-overlapping spellings) is compiled and parsed on every string of the stated input closure through FromStr and TryFrom; each result (variant, payload, error) is compared with the reference parser, so both completeness and soundness hold on the whole bounded space.",
         "trusted: rustc, derived Debug, generated vidx() match, vf-core R-parse/R-case/R-match; generics instantiated with u8/'static", "DESIGN.md §4 C01"),
 "C12": ("complete product of case-insensitivity flags x bounded spelling deviations x all 2^k case flips and Unicode look-alike substitutions, on compiled derive output vs reference matcher folding A-Z only",
         "The full flag product (enum flag x 4 variant flag forms per variant) is enumerated for N=2..3 and every case flip / look-alike / one-edit neighbour of every spelling is parsed; results equal the reference that folds only ASCII letters and only for covered variants.",
         "trusted: rustc, derived Debug, vf-core R-match", "DESIGN.md §4 C12"),
 "C16": ("bounded-exhaustive enumeration of twin programs (plain vs use_phf, compiled in one module) x the C01 input closure; differential + reference oracle; compile acceptance attributed per program",
         "Every field-less enum of the bounded space (spellings may overlap between variants) is built twice, plain and with use_phf, also inside a scope that re-binds Ok/Err/Some/None; a compile diagnostic is a violation, and for every input of the closure both parsers agree (and agree with the reference wherever an input is matched by at most one variant).",
         "trusted: rustc, phf 0.11, derived Debug, vf-core R-parse", "DESIGN.md §4 C16"),
 "C18": ("bounded-exhaustive program-space x input-space enumeration with a call-counting error function, on compiled derive output vs reference parser",
         "For every enum of the bounded space built with and without parse_err_ty/parse_err_fn, every input of the closure is parsed; rejected inputs must return f(original input) with exactly one call of f, accepted inputs zero calls; the associated error types are checked at compile time.",
         "trusted: rustc, derived Debug, the counting function vf_core::my_err, vf-core R-parse", "DESIGN.md §4 C18"),
 "C20": ("bounded-exhaustive enumeration of malformed derive inputs (rule x consuming derive x variant kind x position x repetition form) compiled by rustc; per-item diagnostic attribution with iterated passes; one-bit observation (located error / panic / clean)",
         "Every rejection rule of the statement is instantiated on every derive that consumes the construct (repeated attributes and unknown styles on every derive that reads the attributes), in every listed shape/position/form plus rare forms and malformed attribute values; each item must receive a located compile error, must not make the derive panic and must not compile cleanly; valid controls must stay diagnostic-free. The observation per program is rustc's verdict, so the enumeration is of the program space only.",
         "trusted: rustc JSON diagnostics and spans, the applicability table (derive docs); an error anywhere inside the item counts as located at the item", "DESIGN.md §4 C20"),
 "C19": ("bounded-exhaustive program-space enumeration (<=k deviations, every admissible non-deprecated derive on each enum) compiled under three configurations (no_std/no alloc, renamed strum path, shadowed core/std/strum; solo derives); per-program diagnostic attribution; one-bit observation",
         "Every enum of the bounded space carries all derives it admits and is type-checked by rustc in a #![no_std] crate without alloc, in a crate where strum is only reachable under another path, and next to local modules named core, std and strum; every derive is also used alone on an enum that carries strum attributes; any diagnostic is attributed to its program. The observation per (program, configuration) is rustc's accept/reject, so what is enumerated is the program/configuration space.",
         "trusted: rustc name resolution and type checking, the admissible-derive table; check-only build", "DESIGN.md §4 C19"),
 "C02": ("bounded-exhaustive program-space enumeration (<=k deviations incl. all 16 style strings) on compiled derive output; every printed form and every get_serializations entry parsed back; membership + round-trip oracle",
         "For every enum of the bounded space and every enabled variant, each string produced by Display/AsRefStr/IntoStaticStr and each element of get_serializations is parsed back with the real parser and must yield the same variant with default payloads; each printed string must also be a member of the reference spelling list, so a wrong name cannot cancel out on both sides.",
         "trusted: rustc, derived Debug, generated constructors, vf-core R-spellings/R-case", "DESIGN.md §4 C02"),
 "C03": ("bounded-exhaustive program-space enumeration (all permutations of serialize literals of distinct byte lengths, prefixes, all 16 styles, const_into_str) on compiled twin enums; seven observations per variant vs reference name",
         "For every enum of the bounded space seven string-producing paths (format!, as_ref, as_static, From by value/by reference, const into_str, ToString twin) and VariantNames::VARIANTS are compared with the reference canonical name for every variant; literals are chosen so that longest-by-bytes differs from last/first/alphabetical/longest-by-chars.",
         "trusted: rustc, vf-core R-name/R-case, generated constructor expressions; equal-length ties excluded (statement says 'longest')", "DESIGN.md §4 C03"),
 "C08": ("bounded-exhaustive program-space enumeration (all disabled subsets x <=k deviations) on compiled derive output; four derive outputs compared with the reference list and with each other position by position",
         "For every enum of the bounded space COUNT, iter(), iter().nth(i), VariantNames::VARIANTS and (field-less enums) VariantArray::VARIANTS are compared with the reference variant list, and for enums without disabled variants with each other position by position without a reference in the middle.",
         "trusted: rustc, generated vidx() match, vf-core R-name/R-enabled", "DESIGN.md §4 C08"),
 "C13": ("bounded-exhaustive program-space enumeration (kinds incl. 0..3 tuple fields, identifier shapes, disabled, generics) x every (value, generated method) pair on compiled derive output; method absence observed through fallback-trait probes",
         "For every enum of the bounded space every constructed value is passed to every generated is_*/try_as_* method (by value, by reference, by mutable reference with a write-through read-back) and compared with the reference; the existence of a predicate per enabled variant and the absence for disabled variants is observed at run time through fallback traits.",
         "trusted: rustc method resolution (inherent beats trait), derived Debug/Clone, generated constructors and probes, vf-core R-snake", "DESIGN.md §4 C13"),
 "C14": ("bounded-exhaustive program-space enumeration (message/detail/doc-line sets in both doc forms/naming/disabled/layout) on compiled derive output; four getters per declared variant vs reference",
         "For every enum of the bounded space every declared variant (disabled ones included) is constructed and its four EnumMessage getters are compared with the reference (detail falls back to message, one leading space stripped per doc line, single line verbatim, several lines newline-terminated, all None when disabled, serializations always present).",
         "trusted: rustc doc-comment desugaring, generated constructors, vf-core R-msg/R-detail/R-doc/R-spellings", "DESIGN.md §4 C14"),
 "C15": ("bounded-exhaustive program-space enumeration (props groups with keys shared across variants and types) x query-key closure (declared keys, case variants, prefixes, all strings <= 2) x three getters x every variant, on compiled derive output vs reference map",
         "For every enum of the bounded space every declared variant is queried with every key of the query closure through get_str, get_int and get_bool; presence and absence (other variant, other type, disabled) are compared with the reference property table.",
         "trusted: rustc, generated constructors, vf-core R-props", "DESIGN.md §4 C15"),
 "C10": ("explicit-state BFS to fixpoint (stateright) over (real table, reference array) states from four constructors with the real table rebuilt by history replay; program space of disabled placements x discriminant forms x identifier shapes",
         "For every enum of the program space all value assignments reachable by IndexMut writes over {0,1,2} from new/filled/from_closure/default are visited; in every state every key is read back (disabled keys must panic on read and write), and transform, all and all_ok are compared with the reference; holds for write histories of any length over the alphabet.",
         "trusted: rustc, generated key()/vidx() matches and DynTable glue, derived Debug of the table (state key), stateright BFS; element type u8", "DESIGN.md §4 C10"),
 "C11": ("bounded-exhaustive program-space enumeration (default/transparent variants in every position/form/inner type) x the C01 input closure for captures x a differential format-spec grid against the inner value",
         "Every string of the input closure not claimed by another variant must be captured verbatim and print back unchanged; every transparent (and default) variant is formatted with the whole spec grid and through as_ref / From and must equal the same operation applied to the inner value.",
         "trusted: rustc/core::fmt (the inner value's own impls are the reference), derived Debug, vf-core R-parse", "DESIGN.md §4 C11"),
 "C17": ("bounded-exhaustive program-space enumeration x complete format-spec grid (differential against `<str as Display>`), plus placeholder literals generated from a segment grammar compared with format! of the same literal",
         "Every enabled variant of every enum of the bounded space is formatted with every spec of the grid and must equal the reference name formatted as &str; every placeholder literal of the grammar (all arrangements with repetition, spec forms, separators incl. adjacent escaped braces) must render exactly like format! with the same literal and the fields bound by name/position.",
         "trusted: rustc/core::fmt as reference, vf-core R-name, generated constructors; interpolated variants compared under `{}` only", "DESIGN.md §4 C17"),
 "C07": ("exhaustive identifier-space enumeration (all valid identifiers <= L over {a,B,1,_}) x all 16 accepted style strings compiled into giant enums, plus a dictionary x 6 derives, vs an independently written word-splitting reference",
         "For each of the 16 accepted style strings every valid identifier up to the length bound is a variant of one enum and its VariantNames entry must equal the reference re-casing; a dictionary of realistic names (acronyms, digits, underscores, non-ASCII) is checked through every printing/parsing derive (also case-insensitively), with explicit spellings never re-cased.",
         "trusted: rustc, std char case mapping, vf-core R-case word splitter", "DESIGN.md §4 C07"),
 "C09": ("bounded-exhaustive program-space enumeration (kinds, explicit discriminants, repr, generics, visibilities, strum_discriminants options) x payload palette, on compiled derive output living in a nested module vs rustc's discriminant rule and a hand-written reference enum",
         "For every enum of the bounded space every variant is built with several payloads and converted through From<E>, From<&E> and discriminant(); the resulting variant name and integer value must equal the reference discriminant; layout equals a hand-written field-less enum; requested derives, pass-through attributes, name and visibility overrides are exercised from outside the defining module.",
         "trusted: rustc casts and layout queries, derived Debug, generated constructors, vf-core R-disc/R-case", "DESIGN.md §4 C09"),
}
PENDING = {}

def main():
    props = [json.loads(l) for l in open(os.path.join(HERE, "properties.jsonl"))]
    checks = []
    na = []
    for p in props:
        pid = p["id"]
        if pid in CHECKS:
            tech, text, note, ref = CHECKS[pid]
            checks.append({
                "property_id": pid,
                "quick_cmd": f"./vf check {pid} --tier quick",
                "thorough_cmd": f"./vf check {pid} --tier thorough",
                "evidence_file": f"/verif/evidence/{pid}.json",
                "replay_cmd_template": "./vf replay {path}",
                "engine": "vf",
                "level_claimed": {"category": "model_checking", "text": text, "design_ref": ref},
                "level_note": note,
                "technique": tech,
            })
        else:
            na.append({"property_id": pid, "reason": PENDING.get(pid, "check not built yet in this round (design in DESIGN.md §4); not claimed until its harness runs green on the unchanged tree")})
    m = {
        "version": 1,
        "setup_cmd": "cd /verif && ./vf setup",
        "hooks": {
            "guard": "peternator7_strum_verif",
            "enable": "none needed: harness modules are the modules in which the derives expand, so no instrumentation of /repo exists; the guard name is reserved and unused",
            "baseline_off_cmd": "cd /repo && cargo test --workspace --no-fail-fast --offline",
            "source_commits": [],
            "add_only": True,
        },
        "engines": [{
            "name": "vf", "path": "/verif/crates",
            "serves_properties": sorted(CHECKS.keys()),
            "kind_free_text": "bounded-exhaustive explicit-state search over program space (deviation-bounded enum definitions), input space (tries, case-flip/edit/look-alike closures, full 8/16-bit integer domains) and history space (stateright BFS to fixpoint) executed on the real rustc-compiled derive output against a reference model written in Rust",
        }],
        "checks": checks,
        "not_applicable": na,
        "notes": "All checks rebuild strum/strum_macros from $VERIF_REPO (default /repo) through cargo path dependencies on every run. Exit 0 = held, 1 = VIOLATION line(s), 2 = machinery failure (never a verdict).",
    }
    json.dump(m, open(os.path.join(HERE, "MANIFEST.json"), "w"), indent=1)
    print("wrote MANIFEST.json:", len(checks), "checks,", len(na), "not_applicable")

main()
