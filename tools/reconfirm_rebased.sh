#!/bin/sh
# usage: tools/reconfirm_rebased.sh <seed-id> <rebased.diff> <scratch-worktree>
# Re-confirms a seed whose patch was rebased onto a newer /repo commit: suite passes with it, demo fails with it and
# passes without it. On success replaces seeded/<id>/patch.diff (the first version is kept as patch.orig.diff) and
# records the commit in meta.json. DEMO_MODE as in confirm_seed.sh (test | phf | crate | script).
ID=$1; NEW=$2; WT=$3; D=/verif/seeded/$ID
cd "$WT" || exit 2
git checkout -q -- . && git clean -fdq -e target
git apply "$NEW" || { echo "$ID: rebased patch does not apply"; exit 2; }
SUITE=$(cargo test --workspace --no-fail-fast --offline 2>&1 | grep -E "^test result" | awk '{p+=$4; f+=$6} END {print p" passed "f" failed"}')
MODE=${DEMO_MODE:-test}
rundemo() {
  case "$MODE" in
    test) cargo test -p strum_tests --test zz_demo --offline 2>&1 | grep -E "^test result|error(\\[|:)" | head -3 | tr '\n' ' ' ;;
    phf) cargo test -p strum_tests --features test_phf --test zz_demo --offline 2>&1 | grep -E "^test result|error(\\[|:)" | head -3 | tr '\n' ' ' ;;
  esac
}
cp "$D/demo.rs" strum_tests/tests/zz_demo.rs
WITH=$(rundemo)
git apply -R "$NEW"
WITHOUT=$(rundemo)
rm -f strum_tests/tests/zz_demo.rs
git checkout -q -- . && git clean -fdq -e target
echo "$ID: suite-with-change: $SUITE | demo-with: $WITH | demo-without: $WITHOUT"
case "$SUITE" in *" 0 failed") ;; *) echo "$ID: REJECT suite fails"; exit 1;; esac
case "$WITH" in *"FAILED"*|*error*) ;; *) echo "$ID: REJECT demo does not fail with change"; exit 1;; esac
case "$WITHOUT" in *"test result: ok"*) ;; *) echo "$ID: REJECT demo does not pass without change"; exit 1;; esac
[ -f "$D/patch.orig.diff" ] || cp "$D/patch.diff" "$D/patch.orig.diff"
cp "$NEW" "$D/patch.diff"
HEADC=$(git -C "$WT" rev-parse --short HEAD)
python3 - "$D/meta.json" "$HEADC" "$SUITE" <<'PY'
import json,sys
p,h,s=sys.argv[1:4]; m=json.load(open(p))
m['rebased_onto']=h; m['rebased_note']='patch.diff re-created on this /repo commit (patch.orig.diff is the version first confirmed); re-confirmed: suite '+s+', demo fails with / passes without'
json.dump(m,open(p,'w'),indent=1,ensure_ascii=False)
PY
echo "$ID: RECONFIRMED on $HEADC"
