#!/bin/sh
# usage: tools/try_seed.sh <patch.diff> <ID> [tier]   — apply a seeded change to /repo, run one check, undo.
P=$1; ID=$2; TIER=${3:-quick}
cd /verif || exit 2
if ! git -C /repo diff --quiet; then echo "/repo has uncommitted changes; refusing"; exit 2; fi
git -C /repo apply "$P" || { echo "patch does not apply"; exit 2; }
./vf check "$ID" --tier "$TIER" > /tmp/try_seed.$$.log 2>&1; RC=$?
git -C /repo checkout -- . 
grep -E "^VIOLATION|^KNOWN|^MACHINERY|^C[0-9][0-9] " /tmp/try_seed.$$.log | head -${LINES_MAX:-6}
grep -A4 "^VIOLATION" /tmp/try_seed.$$.log | head -${DETAIL:-12}
rm -f /tmp/try_seed.$$.log
echo "exit=$RC"
exit $RC
